"""Harness-side wrappers around a few html5lib methods.

They only *observe* (count rare conditions, tag stream-originated errors) and
always call the original implementation from /repo; nothing in /repo is
edited.  Installed once per process.
"""
from __future__ import annotations

import sys
from collections import Counter

from . import env  # noqa: F401  (sets sys.path)
from html5lib import _inputstream
from html5lib.constants import EOF

PROBES = Counter()
CHUNK_SIGS = set()
_state_fn = [None]
_installed = [False]


class StreamErr(str):
    """An error code appended by the *stream* (not the tokenizer).  Equal to
    and hashing like the plain string, so html5lib behaves identically."""
    __slots__ = ()


def set_state_fn(fn):
    _state_fn[0] = fn


_budget = [None]


def set_budget(payload_len):
    """Liveness budget on chunk refills and replay-buffer reads for one run
    (logical steps, never seconds); None switches it off."""
    _budget[0] = None if payload_len is None else 8 * payload_len + 512
    _char_budget[0] = None if payload_len is None else 3 * payload_len + 64
    _delivered[0] = 0
    _refills[0] = 0
    _replays[0] = 0


_refills = [0]
_replays = [0]
# characters handed to the tokenizer by chunk refills in this run: a restart
# may deliver the payload twice, never more
_char_budget = [None]
_delivered = [0]


def reset():
    PROBES.clear()
    CHUNK_SIGS.clear()


def char_class(c):
    if c is None or c == "":
        return "none"
    o = ord(c)
    if c == "\r":
        return "CR"
    if c == "\n":
        return "LF"
    if c in " \t\x0c":
        return "sp"
    if c in "<>&;-=/!?\"'[]#":
        return c
    if o == 0:
        return "NUL"
    if o < 0x20 or 0x7f <= o <= 0x9f:
        return "ctl"
    if o < 0x80:
        return "alnum" if c.isalnum() else "punct"
    if 0xD800 <= o <= 0xDBFF:
        return "lead"
    if 0xDC00 <= o <= 0xDFFF:
        return "trail"
    if o > 0xFFFF:
        return "astral"
    return "bmp"


def install():
    if _installed[0]:
        return
    _installed[0] = True
    U = _inputstream.HTMLUnicodeInputStream
    B = _inputstream.BufferedStream
    Bin = _inputstream.HTMLBinaryInputStream

    orig_readChunk = U.readChunk
    orig_unget = U.unget
    orig_cerr = U.characterErrorsUCS4
    orig_rfb = B._readFromBuffer
    orig_bseek = B.seek
    orig_change = Bin.changeEncoding

    def readChunk(self, chunkSize=None):
        prev_last = self.chunk[-1:] if self.chunk else ""
        had = self._bufferedCharacter
        rv = orig_readChunk(self, chunkSize)
        P = PROBES
        P["readChunk"] += 1
        b = _budget[0]
        if b is not None:
            _delivered[0] += self.chunkSize
            _refills[0] += 1
            if _refills[0] > b or _delivered[0] > _char_budget[0]:
                from .sources import SimBudgetExceeded
                raise SimBudgetExceeded("more than %d chunk refills or %d characters delivered for this payload"
                                        % (b, _char_budget[0]))
        bc = self._bufferedCharacter
        if bc is not None:
            if bc == "\r":
                P["cr_withheld"] += 1
            else:
                P["lead_surrogate_withheld"] += 1
        if rv:
            try:
                caller = sys._getframe(1).f_code.co_name
            except ValueError:
                caller = ""
            if caller == "charsUntil":
                P["charsUntil_spans_chunks"] += 1
            fn = _state_fn[0]
            st = fn() if fn is not None else None
            first = self.chunk[:1]
            CHUNK_SIGS.add((st, char_class(had if had else prev_last), char_class(first)))
        return rv

    def unget(self, char):
        if char is not EOF and self.chunkOffset == 0:
            PROBES["unget_at_chunk_start"] += 1
            if char == "\n":
                PROBES["unget_newline_at_chunk_start"] += 1
        return orig_unget(self, char)

    def characterErrorsUCS4(self, data):
        n = len(self.errors)
        orig_cerr(self, data)
        errs = self.errors
        for i in range(n, len(errs)):
            errs[i] = StreamErr(errs[i])
            PROBES["stream_error"] += 1

    def _readFromBuffer(self, bytes):
        PROBES["bufferedstream_replay"] += 1
        b = _budget[0]
        if b is not None:
            _replays[0] += 1
        if b is not None and _replays[0] > b:
            from .sources import SimBudgetExceeded
            raise SimBudgetExceeded("more than %d reads served from the replay buffer" % b)
        return orig_rfb(self, bytes)

    def bseek(self, pos):
        PROBES["bufferedstream_seek"] += 1
        return orig_bseek(self, pos)

    def changeEncoding(self, newEncoding):
        PROBES["changeEncoding_called"] += 1
        try:
            return orig_change(self, newEncoding)
        except BaseException as e:
            if type(e).__name__ == "_ReparseException":
                PROBES["restart_fired"] += 1
                if PROBES["readChunk"] > 1:
                    PROBES["restart_after_multi_chunk"] += 1
                if isinstance(self.rawStream, B):
                    PROBES["restart_served_from_replay_buffer"] += 1
            raise

    U.readChunk = readChunk
    U.unget = unget
    U.characterErrorsUCS4 = characterErrorsUCS4
    B._readFromBuffer = _readFromBuffer
    B.seek = bseek
    Bin.changeEncoding = changeEncoding
    from . import coldstate
    for cls in (U, B, Bin):
        coldstate.accept_current(cls)
