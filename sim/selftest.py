"""Self-tests of the machinery (not registered as checks).

sensitivity : apply each mutants/*.patch to a scratch copy of the repository,
              confirm the unedited baseline test-suite still passes there, run
              the owning property's quick check against the copy
              (VERIF_REPO) and expect a VIOLATION line; delete the copy.
determinism : run N units of every stream twice in fresh interpreters under
              different PYTHONHASHSEED values and diff the per-unit digests.
"""
from __future__ import annotations

import json
import os
import shutil
import subprocess
import sys
import tempfile
import time

from . import env


def _copy_repo(dst):
    subprocess.run(["rsync", "-a", "--exclude", ".git", "--exclude", "__pycache__", "--exclude", ".pytest_cache",
                    env.REPO + "/", dst + "/"], check=True)


def run_mutant(patch_path, tier="quick", units=None, run_tests=True):
    mid = os.path.basename(patch_path)[:-len(".patch")]
    prop = open(patch_path).readline().split("breaks ")[1].split(" ")[0]
    tmp = tempfile.mkdtemp(prefix="h5mut_%s_" % mid)
    out_dir = tempfile.mkdtemp(prefix="h5out_%s_" % mid)
    rec = {"mutant": mid, "property": prop}
    try:
        _copy_repo(tmp)
        p = subprocess.run(["patch", "-p1", "-s", "-i", patch_path], cwd=tmp, capture_output=True, text=True)
        if p.returncode != 0:
            rec["status"] = "patch-failed"
            rec["detail"] = (p.stdout + p.stderr)[-300:]
            return rec
        if run_tests:
            t = subprocess.run([sys.executable, "-m", "pytest", "-q", "-p", "no:cacheprovider", "--timeout=900", "-x"],
                               cwd=tmp, capture_output=True, text=True, env=dict(os.environ, PYTHONDONTWRITEBYTECODE="1"))
            tail = t.stdout.strip().splitlines()[-1] if t.stdout.strip() else ""
            rec["baseline"] = tail
            rec["baseline_passes"] = t.returncode == 0
        envv = dict(os.environ, VERIF_REPO=tmp, VERIF_OUT_DIR=out_dir)
        cmd = [sys.executable, "-m", "sim", "check", prop, "--tier", tier, "--no-selfcheck"]
        if units:
            cmd += ["--units", str(units)]
        t0 = time.time()
        c = subprocess.run(cmd, cwd=env.VERIF_DIR, env=envv, capture_output=True, text=True)
        rec["wall_s"] = round(time.time() - t0, 1)
        rec["exit"] = c.returncode
        vio = [ln for ln in c.stdout.splitlines() if ln.startswith("VIOLATION")]
        rec["violations"] = len(vio)
        rec["detected"] = c.returncode == 1 and bool(vio)
        det = [ln.strip() for ln in c.stdout.splitlines() if ln.strip().startswith("oracle=")]
        rec["oracles"] = [d.split(" ")[0] for d in det]
        # how many runs of the batch failed: a change caught by a handful of runs only is caught by luck of the seed
        rec["runs_failing"] = sum(int(d.split("runs_failing=")[1].split(" ")[0]) for d in det if "runs_failing=" in d)
        if c.returncode not in (0, 1):
            rec["detail"] = (c.stdout + c.stderr)[-600:]
        return rec
    finally:
        shutil.rmtree(tmp, ignore_errors=True)
        shutil.rmtree(out_dir, ignore_errors=True)


def seeded(props, only=None):
    """Run the owning quick check against every /verif/seeded/<id>/patch.diff
    (applied to a scratch copy, never to /repo)."""
    sdir = os.path.join(env.VERIF_DIR, "seeded")
    results = []
    for d in sorted(os.listdir(sdir)):
        meta_p = os.path.join(sdir, d, "meta.json")
        if not os.path.exists(meta_p):
            continue
        meta = json.load(open(meta_p))
        if meta["property"] not in props or (only and only not in d):
            continue
        tmp_patch = os.path.join(tempfile.gettempdir(), "seeded_%s.patch" % d)
        with open(tmp_patch, "w") as f:
            f.write("# %s: breaks %s - seeded\n" % (d, meta["property"]))
            f.write(open(os.path.join(sdir, d, "patch.diff")).read())
        try:
            rec = run_mutant(tmp_patch)
        finally:
            os.unlink(tmp_patch)
        rec["mutant"] = d
        if meta.get("expected"):
            rec["expected"] = meta["expected"]
        results.append(rec)
        print(json.dumps(rec, sort_keys=True), flush=True)
    # a change whose meta.json says "expected": "missed" is a documented limit of the harness (DESIGN 11.8): it is run all
    # the same, and a detection would be reported, but not detecting it is not a failure of the self-test
    out_of_reach = [r for r in results if not r.get("detected") and r.get("expected") == "missed"]
    missed = [r for r in results if not r.get("detected") and r.get("expected") != "missed"]
    print("seeded: %d changes, %d detected, %d missed: %s; %d outside what is simulated: %s"
          % (len(results), len(results) - len(missed) - len(out_of_reach), len(missed), [r["mutant"] for r in missed],
             len(out_of_reach), [r["mutant"] for r in out_of_reach]))
    res_path = os.path.join(sdir, "RESULTS.json")
    if only and os.path.exists(res_path):
        # a partial run updates the entries it re-ran and keeps the others
        try:
            prev = json.load(open(res_path)).get("results", [])
        except ValueError:
            prev = []
        names = set(r["mutant"] for r in results)
        results = sorted([r for r in prev if r.get("mutant") not in names] + results, key=lambda r: r["mutant"])
    with open(res_path, "w") as fo:
        json.dump({"repo_head": subprocess.run(["git", "-C", env.REPO, "rev-parse", "--short", "HEAD"], capture_output=True,
                                               text=True).stdout.strip(), "results": results}, fo, indent=1, sort_keys=True)
    return 0 if not missed else 1


def sensitivity(props, only=None, units=None):
    mdir = os.path.join(env.VERIF_DIR, "mutants")
    patches = sorted(f for f in os.listdir(mdir) if f.endswith(".patch"))
    results = []
    for f in patches:
        path = os.path.join(mdir, f)
        prop = open(path).readline().split("breaks ")[1].split(" ")[0]
        if prop not in props or (only and only not in f):
            continue
        rec = run_mutant(path, units=units)
        results.append(rec)
        print(json.dumps(rec, sort_keys=True), flush=True)
    missed = [r for r in results if not r.get("detected")]
    print("sensitivity: %d mutants, %d detected, %d missed: %s"
          % (len(results), len(results) - len(missed), len(missed), [r["mutant"] for r in missed]))
    with open(os.path.join(mdir, "RESULTS.json"), "w") as fo:
        json.dump({"repo_head": subprocess.run(["git", "-C", env.REPO, "rev-parse", "--short", "HEAD"], capture_output=True,
                                               text=True).stdout.strip(), "results": results}, fo, indent=1, sort_keys=True)
    return 0 if not missed else 1


def determinism(props, units):
    bad = 0
    for prop in props:
        outs = []
        for hs in ("1", "77"):
            envv = dict(os.environ, PYTHONHASHSEED=hs)
            p = subprocess.run([sys.executable, "-m", "sim", "digests", prop, "--units", str(units)], cwd=env.VERIF_DIR,
                               env=envv, capture_output=True, text=True)
            if p.returncode != 0:
                print(prop, "digests failed", p.stderr[-500:])
                return 2
            outs.append(json.loads(p.stdout.strip().splitlines()[-1]))
        n = sum(len(v) for v in outs[0].values())
        diff = [(s, i) for s in outs[0] for i in outs[0][s] if outs[1].get(s, {}).get(i) != outs[0][s][i]]
        print("%s: %d unit digests compared across PYTHONHASHSEED=1/77 in fresh interpreters, %d diverged %s"
              % (prop, n, len(diff), diff[:5]))
        bad += len(diff)
    return 0 if not bad else 2


def seeds(props, seed_list=(1, 2, 3, 4, 5)):
    """False-alarm guard: the quick check of every property under several
    VERIF_SEEDs on the unchanged tree (outputs redirected, evidence untouched)."""
    bad = 0
    for prop in props:
        for sd in seed_list:
            out_dir = tempfile.mkdtemp(prefix="h5seeds_")
            try:
                envv = dict(os.environ, VERIF_SEED=str(sd), VERIF_OUT_DIR=out_dir)
                c = subprocess.run([sys.executable, "-m", "sim", "check", prop, "--tier", "quick", "--no-selfcheck"],
                                   cwd=env.VERIF_DIR, env=envv, capture_output=True, text=True)
                last = [ln for ln in c.stdout.splitlines() if ln.startswith(prop + ":")]
                print("%s seed=%d exit=%d %s" % (prop, sd, c.returncode, last[-1][:160] if last else ""), flush=True)
                if c.returncode != 0:
                    bad += 1
                    for ln in c.stdout.splitlines():
                        if ln.startswith(("VIOLATION", "HARNESS", "  oracle", "  minimised")):
                            print("   " + ln[:600])
            finally:
                shutil.rmtree(out_dir, ignore_errors=True)
    print("seeds: %d alarming runs" % bad)
    return 0 if not bad else 1


def main(args):
    props = [p for p in args.props.split(",") if p]
    if args.what == "sensitivity":
        return sensitivity(props, only=getattr(args, "only", None))
    if args.what == "seeds":
        return seeds(props)
    if args.what == "seeded":
        return seeded(props, only=getattr(args, "only", None))
    return determinism(props, args.units)
