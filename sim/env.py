"""Process set-up: import html5lib from the repository's working tree, seeds."""
from __future__ import annotations

import hashlib
import os
import sys

sys.dont_write_bytecode = True

VERIF_DIR = os.path.dirname(os.path.dirname(os.path.abspath(__file__)))
REPO = os.path.abspath(os.environ.get("VERIF_REPO", "/repo"))
DEFAULT_SEED = 20261003


def _setup_path():
    # the repository's working tree must win over any installed copy
    while REPO in sys.path:
        sys.path.remove(REPO)
    sys.path.insert(0, REPO)


_setup_path()

import html5lib  # noqa: E402

if not os.path.abspath(html5lib.__file__).startswith(REPO + os.sep):
    raise SystemExit("harness error: html5lib imported from %s, not from %s"
                     % (html5lib.__file__, REPO))

# import every sub-module that can be imported lazily by library code, so that
# no simulated thread ever parks while holding an import lock and so that a
# forked child never imports anything
import html5lib._inputstream  # noqa: E402,F401
import html5lib._tokenizer  # noqa: E402,F401
import html5lib._utils  # noqa: E402,F401
import html5lib.constants  # noqa: E402,F401
import html5lib.html5parser  # noqa: E402,F401
import html5lib.serializer  # noqa: E402,F401
import html5lib._trie  # noqa: E402,F401
import html5lib._trie.py  # noqa: E402,F401
import html5lib.treebuilders  # noqa: E402,F401
import html5lib.treebuilders.base  # noqa: E402,F401
import html5lib.treebuilders.dom  # noqa: E402,F401
import html5lib.treebuilders.etree  # noqa: E402,F401
import html5lib.treewalkers  # noqa: E402,F401
import html5lib.treewalkers.base  # noqa: E402,F401
import html5lib.treewalkers.dom  # noqa: E402,F401
import html5lib.treewalkers.etree  # noqa: E402,F401
import html5lib.filters.alphabeticalattributes  # noqa: E402,F401
import html5lib.filters.inject_meta_charset  # noqa: E402,F401
import html5lib.filters.optionaltags  # noqa: E402,F401
import html5lib.filters.sanitizer  # noqa: E402,F401
import html5lib.filters.whitespace  # noqa: E402,F401
import html5lib.filters.lint  # noqa: E402,F401
import html5lib.filters.base  # noqa: E402,F401
import html5lib.treeadapters  # noqa: E402,F401
import html5lib.treeadapters.sax  # noqa: E402,F401
import html5lib._ihatexml  # noqa: E402,F401
import xml.dom.minidom  # noqa: E402,F401
import xml.etree.ElementTree  # noqa: E402,F401
import encodings  # noqa: E402,F401
import webencodings  # noqa: E402,F401


from . import coldstate  # noqa: E402

coldstate.snapshot()   # import-time contents of every process-wide container of the library


def verif_seed() -> int:
    v = os.environ.get("VERIF_SEED", "")
    try:
        return int(v)
    except ValueError:
        return DEFAULT_SEED


def run_seed(prop: str, stream: str, seed: int, i: int) -> int:
    """The one integer that decides run i of a batch."""
    h = hashlib.sha256(("%s|%s|%d|%d" % (prop, stream, seed, i)).encode()).digest()
    return int.from_bytes(h[:8], "big")


def digest(obj) -> str:
    return hashlib.sha256(repr(obj).encode("utf-8", "surrogatepass")).hexdigest()


def digest64(obj) -> int:
    return int.from_bytes(hashlib.sha1(repr(obj).encode("utf-8", "surrogatepass")).digest()[:8], "big")
