"""Document generators.  A document is a list of atoms (strings) so that the
minimiser can delete or simplify atoms; the text is their concatenation."""
from __future__ import annotations

TAG_NAMES = [
    "a", "b", "i", "p", "div", "span", "table", "tbody", "thead", "tr", "td", "th", "caption",
    "colgroup", "col", "select", "option", "optgroup", "svg", "math", "mi", "mtext", "foreignObject",
    "desc", "title", "script", "style", "textarea", "pre", "listing", "plaintext", "form", "input",
    "button", "br", "hr", "img", "ul", "li", "dl", "dt", "dd", "h1", "h2", "nobr", "em", "strong",
    "font", "frameset", "frame", "noframes", "noscript", "iframe", "xmp", "body", "head", "html",
    "meta", "link", "base", "template", "applet", "marquee", "object", "annotation-xml", "image",
    "isindex", "ruby", "rt", "rp", "address", "center", "x-foo",
]

ATTRS = [
    " a=b", " a='b c'", ' a="b c"', " a", " A=B", " a=b a=c", ' href="x&amp;y"', " href=x&y", " href='&#x41;'",
    ' id="&notit;"', " type=hidden", " xlink:href=u", " xml:lang=en", " xmlns=\"http://www.w3.org/2000/svg\"",
    " definitionurl=x", " encoding=text/html", " encoding='application/xhtml+xml'", " charset=utf-8",
    " http-equiv=content-type content='text/html; charset=koi8-r'", " color=red", " a=\"\r\nb\"",
    " a='x\ry'", " a=<b", " a=\"b\"c", " a==b", " /", " a=\x00", " \x00=b", " a=b\x00c", " a=\"&#0;\"",
    " viewbox=0", " attributename=x",
]

DOCTYPES = [
    "<!DOCTYPE html>", "<!doctype html>", "<!DOCTYPE>", "<!DOCTYPE html PUBLIC \"-//W3C//DTD HTML 4.01//EN\">",
    "<!DOCTYPE html PUBLIC \"-//W3C//DTD HTML 4.01 Transitional//EN\" \"http://www.w3.org/TR/html4/loose.dtd\">",
    "<!DOCTYPE html PUBLIC \"-//W3C//DTD XHTML 1.0 Frameset//EN\">", "<!DOCTYPE html SYSTEM 'about:legacy-compat'>",
    "<!DOCTYPE html PUBLIC 'a\r\nb' 'c\rd'>", "<!DOCTYPE foo bar>", "<!DOCTYPE html PUBLIC", "<!DOCTYPE html SYSTEM \"x",
    "<!DOCTYPE\rhtml\r\n>", "<!DOCTYPE html PUBLIC\"x\"\"y\">", "<!DOCTYPE html public 'html'>",
]

COMMENTS = [
    "<!--x-->", "<!---->", "<!-->", "<!--->", "<!-- a -- b -->", "<!--a--!>", "<!--a-", "<!--a--", "<!x>", "<?pi?>",
    "<!-- \r\n -->", "<!--\r-->", "<!--<!--x-->-->", "<![CDATA[x]]>", "<![CDATA[a]]b]]>", "<![CDATA[\r\n]]>",
    "<![CDATA[", "<!--\x00-->", "<!-", "<!--a\r", "</ x>", "</>", "<!--" + "y" * 40 + "-->",
]

CHARREFS = [
    "&amp;", "&amp", "&lt;", "&notit;", "&notin;", "&not", "&#65;", "&#x41;", "&#X41;", "&#x110000;", "&#0;", "&#128;",
    "&#x80;", "&#xD800;", "&#xFFFF;", "&#13;", "&#x0D;", "&", "&#", "&#x", "&#;", "&#x;", "&nosuch;", "&ampx", "&AMP;",
    "&CounterClockwiseContourIntegral;", "&CounterClockwiseContourIntegra", "&#65", "&#x41g", "&acE;", "&NotEqualTilde;",
    "&#9999999999;", "&a", "&am", "&lt", "&gt;x",
]

TEXTS = [
    "x", "hello world", " ", "  ", "\t", "\n", "\r", "\r\n", "\r\r\n", "\n\r", "\r\r", "a\rb", "a\r\nb", "\x0c",
    "text with spaces ", "1 < 2", "a > b", "=", "\"", "'", "/", "foo=bar", "\x00", "a\x00b", "\x01", "\x0b", "\x7f",
    "\x80", "\x9f", "\ufdd0", "\ufffe", "\uffff", "\U0001fffe", "\U0010ffff", "\xe9", "\u20ac", "\u3042\u3044",
    "\U0001f600", "\U00010000", "\xa0", "\u2028", "\ufeff", "\ufffd", "caf\xe9", "\u0416\u0438", "\u4e2d\u6587",
    "\uac00", "\u05d0", "\u0e01", "\u03a9", "ab" * 10, "z" * 37,
]

PARTIALS = [
    "<", "</", "<!", "<!-", "<!--", "--", "-->", "--!>", "->", "]]", "]]>", "]", "</scr", "</script", "</script ",
    "</script>", "</scr\r", "</title", "</textarea>", "</style>", "</xmp>", "&no", "&#x1", "&#1", ">", "/>", "<a", "<a ",
    "<a b", "<a b=", "<a b='", "<a b=\"", "<a b=c", "<a/", "</a", "</a ", "<!D", "<!DOCTYPE", "<!DOCTYPE ", "<!DOCTYPE h",
    "PUBLIC", "SYSTEM", "<![", "<![CDATA", "<?", "-", "<!--<", "<!--<!", "<script><!--", "<script><!--<script>",
    "<\r", "</\r", "<a\r", "<a\rb", "<a b\r", "<a b=\r", "<a b='\r", "&\r", "&#\r",
]

SURROGATES = ["\ud800", "\udbff", "\udc00", "\udfff", "\ud83d", "\ud800\ud800", "\udc00\ud800", "a\ud800", "\ud83dx",
              "\ud800\r", "\r\ud800"]

# elements after which the tokenizer switches content model: give them some
# closed forms so that not every document ends inside raw text
RAW_CLOSED = [
    "<script>x</script>", "<script>a<b</script>", "<script><!--x--></script>", "<script><!--<script></script>--></script>",
    "<style>a{b}</style>", "<title>t&amp;u</title>", "<textarea>\r\nx</textarea>", "<textarea>\nx&lt;</textarea>",
    "<pre>\nx</pre>", "<pre>\r\nx</pre>", "<pre>\r", "<listing>\n", "<xmp><b></xmp>", "<noscript><p></noscript>",
    "<iframe><a></iframe>", "<noframes>x</noframes>", "<plaintext>", "<title>\r</title>", "<script>\r\n</script>",
    "<script>\x00</script>", "<title>\x00&#0;</title>", "<textarea>\r", "<svg><![CDATA[a\r\nb]]></svg>",
    "<svg><title><p>", "<math><mi><p>", "<math><annotation-xml encoding=text/html><p>", "<svg><desc><b>",
    "<svg><foreignObject><p>", "<svg><p>", "<math><b>", "<table><td>", "<table>x", "<table> ", "<table><b>", "<table><tr><td>x",
    "<select><option>a<option>b", "<select><table>", "<table><select><td>", "<frameset><frame>", "</frameset>",
    "<table><caption>c<table>", "<table><colgroup><col>x", "<b><p></b>", "<a><a>", "<a><table><a>", "<b><i></b></i>",
    "<nobr><nobr>", "<form><form>", "<p><table>", "<h1><h2>", "<li><li>", "<dd><dt>", "<button><button>",
    "<ruby><rt><rp>", "<body a=b>", "<html c=d>", "</body>x", "</html>x", "</html><!--c-->", "</body><!--c-->", "</p>", "</br>",
    "<image>", "<isindex>", "<input type=hidden>", "<table><input type=hidden>", "<table><input>", "<table><form>",
    "<template><td>", "<head></head>x", "<head><meta charset=x></head>", "<br/>", "<div/>", "<svg/>", "<svg><a/>",
]

CONTAINERS = ["div", "p", "table", "tbody", "tr", "td", "th", "select", "title", "textarea", "script", "style",
              "plaintext", "html", "head", "body", "frameset", "colgroup", "caption", "pre", "svg", "math",
              "noscript", "iframe", "xmp", "option", "template", "DIV", "Table"]


def _tag(rng):
    name = rng.choice(TAG_NAMES)
    r = rng.random()
    if r < 0.3:
        return "</%s>" % name
    n_attr = 0 if r < 0.65 else rng.randint(1, 3)
    attrs = "".join(rng.choice(ATTRS) for _ in range(n_attr))
    close = "/>" if rng.random() < 0.07 else ">"
    if rng.random() < 0.1:
        name = name.upper()
    return "<%s%s%s" % (name, attrs, close)


def atom(rng, surrogates_ok=False, weights=None):
    w = weights or DEFAULT_WEIGHTS
    r = rng.random() * w["_total"]
    acc = 0.0
    for key in _ORDER:
        acc += w[key]
        if r < acc:
            break
    if key == "tag":
        return _tag(rng)
    if key == "text":
        return rng.choice(TEXTS)
    if key == "charref":
        return rng.choice(CHARREFS)
    if key == "comment":
        return rng.choice(COMMENTS)
    if key == "doctype":
        return rng.choice(DOCTYPES)
    if key == "partial":
        return rng.choice(PARTIALS)
    if key == "raw":
        return rng.choice(RAW_CLOSED)
    if key == "surrogate":
        if surrogates_ok:
            return rng.choice(SURROGATES)
        return rng.choice(TEXTS)
    return "x"


_ORDER = ["tag", "text", "charref", "comment", "doctype", "partial", "raw", "surrogate"]


def make_weights(rng=None):
    """Swarm-style: each run enables a random subset of atom classes."""
    base = {"tag": 5.0, "text": 4.0, "charref": 1.5, "comment": 1.0, "doctype": 0.4, "partial": 1.5, "raw": 1.5,
            "surrogate": 0.4}
    if rng is not None:
        for k in list(base):
            r = rng.random()
            if r < 0.2:
                base[k] = 0.0
            elif r < 0.4:
                base[k] *= 3.0
        if not any(base.values()):
            base["text"] = 1.0
    base["_total"] = sum(base[k] for k in _ORDER)
    return base


DEFAULT_WEIGHTS = make_weights()


# Characters that Python's str.upper()/str.lower()/casefold() turn into ASCII letters although they are not ASCII: code
# that compares keywords through those methods instead of ASCII-only tables accepts them, ASCII-only code does not.
_FOLD_LOOKALIKES = {"i": "\u0131", "I": "\u0131", "s": "\u017f", "S": "\u017f", "k": "\u212a", "K": "\u212a"}
_KEYWORD_ATOMS = ["<!DOCTYPE html PUBLIC \"-//W3C//DTD HTML 4.01//EN\">", "<!DOCTYPE html SYSTEM \"about:legacy-compat\">",
                  "<!doctype html public 'x' 'y'>", "<!DOCTYPE html system 'x'>", "<svg><![CDATA[x]]></svg>", "<script>x</script>",
                  "<title>t</title>", "<textarea>x</textarea>", "<style>x</style>", "<plaintext>", "<!DOCTYPE html>", "<listing>\nx",
                  "<isindex>", "<svg><desc><b>x", "<kbd>x</kbd>", "<Kbd>", "&Kscr;", "&isin;", "&sim;", "<select><keygen>", "<basefont>",
                  "<input type=hidden>", "<frameset>", "<noscript>x</noscript>", "<ins>", "<s>x</s>", "<strike>", "<small>"]


def fold_lookalike(rng, atoms):
    """Replace one ASCII i/s/k of a keyword-bearing atom by its case-folding look-alike."""
    idx = [k for k, a in enumerate(atoms) if any(c in _FOLD_LOOKALIKES for c in a)]
    if not idx:
        return atoms
    k = rng.choice(idx)
    a = atoms[k]
    pos = [j for j, c in enumerate(a) if c in _FOLD_LOOKALIKES]
    j = rng.choice(pos)
    return atoms[:k] + [a[:j] + _FOLD_LOOKALIKES[a[j]] + a[j + 1:]] + atoms[k + 1:]


# Characters that belong to the same Unicode CLASS as an ASCII character the HTML syntax cares about, but are not that
# character: str.isdigit()/\\d/int() accept non-ASCII decimal digits, str.isspace()/\\s/strip() non-ASCII white space,
# str.isalpha()/\\w non-ASCII letters.  Code that uses those instead of the ASCII-only tables of the standard behaves
# differently on them.
_DIGIT_LOOKALIKES = [0xFF10, 0x0660, 0x0966, 0x0E50]          # fullwidth, Arabic-Indic, Devanagari, Thai zero
_SPACE_LOOKALIKES = ["\xa0", "\u2003", "\x0b", "\x1c", "\x1f", "\x85", "\u3000", "\u2028"]
_CLASS_ATOMS = ["&#65;", "&#x41;", "&#1234;", "&#65", "&#x4a;b", "<a href=x y=z>", "<div class=a id=b>", "<td colspan=2>", "<p title='a b'>",
                "<!DOCTYPE html PUBLIC \"a\" \"b\">", "<meta charset=utf-8 >", "</p >", "<br />", "&#38;#38;", "<font size=7>", "&#0065;",
                "<input type=hidden value=1>", "a &#169; b", "<ol start=3>", "<h1>2 b</h1>"]


def class_lookalike(rng, atoms):
    """Replace one ASCII digit or space of an atom by a non-ASCII character of the same Unicode class."""
    idx = [k for k, a in enumerate(atoms) if any(c.isdigit() and c.isascii() or c == " " for c in a)]
    if not idx:
        return atoms
    k = rng.choice(idx)
    a = atoms[k]
    pos = [j for j, c in enumerate(a) if (c.isdigit() and c.isascii()) or c == " "]
    # prefer a digit that is not the first of its run (the first one is often checked separately)
    later = [j for j in pos if a[j] != " " and j > 0 and a[j - 1].isdigit()]
    j = rng.choice(later) if later and rng.random() < 0.6 else rng.choice(pos)
    c = a[j]
    rep = rng.choice(_SPACE_LOOKALIKES) if c == " " else chr(rng.choice(_DIGIT_LOOKALIKES) + int(c))
    return atoms[:k] + [a[:j] + rep + a[j + 1:]] + atoms[k + 1:]


# Characters whose str.lower() / str.upper() / str.casefold() has a different LENGTH than the original: code that searches
# in a case-mapped copy of a piece of text and applies the index to the original (or the other way round) is off by one
# per such character before the match.
_LENGTH_CHANGERS = ["\u0130", "\xdf", "\ufb01", "\u0149", "\u01f0", "\u0390", "\ufb06", "\u1e9e", "\u0130\u0130", "\ufb03"]
_LENGTH_ATOMS = ["<script>var a=1;b()</script>x<b>y</b>", "<style>p{color:red}</style>x<i>y</i>", "<title>ab cd</title>x<p>y",
                 "<textarea>ab cd</textarea>x<p>y", "<xmp>ab<b>cd</xmp>x<p>y", "<!--ab cd-->x<p>y", "<a href='abc' title=\"de\">x</a>y",
                 "<!DOCTYPE html PUBLIC \"ab\" \"cd\">x", "<svg><![CDATA[ab cd]]></svg>x", "<script><!--ab--></script>x<p>y",
                 "<noscript>ab cd</noscript>x", "<iframe>ab cd</iframe>x<p>y", "<script>ab</SCRIPT>x<p>y", "<title>ab</TITLE >x",
                 "<script>a<b</script>c</script>x", "<p>ab cd</p>x", "<div class=abc>x</div>y", "&amp;ab&lt;cd", "<plaintext>ab cd",
                 "<script>ab\n</script\n>x<p>y", "<style>ab</style/>x", "<noframes>ab</noframes>x"]


def length_changer(rng, atoms):
    """Insert 1-3 characters whose case mapping changes the length into one atom."""
    if not atoms:
        return atoms
    k = rng.randrange(len(atoms))
    a = atoms[k]
    for _ in range(rng.randint(1, 3)):
        j = rng.randint(0, len(a))
        a = a[:j] + rng.choice(_LENGTH_CHANGERS) + a[j:]
    return atoms[:k] + [a] + atoms[k + 1:]


def soup(rng, surrogates_ok=False, max_atoms=40, long_prob=0.05):
    """A list of atoms."""
    weights = make_weights(rng)
    atoms = []
    if rng.random() < 0.35:
        atoms.append(rng.choice(DOCTYPES[:2]))
    n = rng.randint(1, max_atoms)
    for _ in range(n):
        atoms.append(atom(rng, surrogates_ok, weights))
    if rng.random() < 0.1:
        # a keyword spelled with a case-folding look-alike, usually preceded by few other atoms
        atoms = atoms[:rng.randint(0, 3)] + [rng.choice(_KEYWORD_ATOMS)] + atoms[3:6]
        atoms = fold_lookalike(rng, atoms)
    elif rng.random() < 0.03:
        atoms = fold_lookalike(rng, atoms)
    r2 = rng.random()
    if r2 < 0.08:
        atoms = atoms[:rng.randint(0, 3)] + [rng.choice(_CLASS_ATOMS)] + atoms[3:6]
        atoms = class_lookalike(rng, atoms)
    elif r2 < 0.11:
        atoms = class_lookalike(rng, atoms)
    r3 = rng.random()
    if r3 < 0.06:
        k = rng.randint(0, 3)
        atoms = atoms[:k] + length_changer(rng, [rng.choice(_LENGTH_ATOMS)]) + atoms[3:6]
    elif r3 < 0.08:
        atoms = length_changer(rng, atoms)
    if rng.random() < long_prob:
        atoms = _make_long(rng, atoms, surrogates_ok)
    return atoms


_LONG_FILLERS = ["y", "word ", "<i>q</i>", "&amp;", "\n", "\xe9", "x stray ", "a]b>c ", "ab-c ", "q\r\n", " ", "\t\n", "k=v ",
                 # runs of ONE syntactically active character or pattern: whatever the tokenizer does per occurrence (unget,
                 # re-scan, error, held-back character) it does thousands of times in a row and across every chunk boundary
                 "&", "<", "\r", "]]", "--", "\U0001f600", "e\u0301", "&#", "</", "<!", "\r\r\n", "'\"", "\x00", ">", "=", "/", "&x", "-", "]",
                 "\ufeff", "&#x", ";", "<a>", "</a>", "\x0c", "\t"]
# a long run is placed in every kind of tokenizer state / insertion mode, so
# that a chunk boundary of the *shipped* chunk size falls inside each of them
_LONG_CONTEXTS = [
    [], [], [], ["<svg>", "<![CDATA["], ["<math>", "<![CDATA["], ["<frameset>"], ["<frameset>", "</frameset>"], ["<table>"], ["<table>", "<tr>"],
    ["<select>"], ["<title>"], ["<textarea>"], ["<script>"], ["<script>", "<!--"], ["<style>"], ["<plaintext>"], ["<!--"], ["<!"], ["<?"],
    ["<p title='"], ["<p title=\""], ["<p title="], ["<p "], ["<!DOCTYPE "], ["<!DOCTYPE html PUBLIC '"], ["<pre>"], ["</body>"], ["</html>"],
    ["<head>"], ["<html>", "<head>", "<noscript>"], ["<svg>", "<desc>"], ["<math>", "<mtext>"], ["<colgroup>"], ["<table>", "<colgroup>"], ["<xmp>"],
    ["</"], ["<a"], ["<svg>", "<a xlink:href='"], ["<template>"], ["<ruby>", "<rt>"],
]


def _make_long(rng, atoms, surrogates_ok):
    """Put a boundary-sensitive atom near offset 10240 (default chunk) or 1024."""
    target = rng.choice([10240, 10240, 10240, 1024, 20480])
    if rng.random() < 0.7:
        atoms = (list(atoms[:rng.randint(0, 3)]) if rng.random() < 0.5 else []) + list(rng.choice(_LONG_CONTEXTS))
    sensitive = rng.choice(["\r\n", "\r", "\r\r\n", "\U0001f600", "<!--x-->", "&amp;", "</script>", "<a b='c'>", "\x01",
                            "<![CDATA[x]]>", "&#x41;", "\x00"] + (["\ud800", "\U0001f600"] if surrogates_ok else []))
    head_len = sum(len(a) for a in atoms)
    filler = rng.choice(_LONG_FILLERS)
    want = target + rng.randint(-3, 2) - head_len
    out = list(atoms)
    if want > 0:
        reps = want // len(filler)
        out.append(filler * reps)
        pad = want - reps * len(filler)
        if pad:
            out.append("y" * pad)
    out.append(sensitive)
    if rng.random() < 0.2:
        # a SECOND long run (another filler, possibly after switching the context) up to the next multiple of the chunk size
        out.extend(rng.choice([[], ["</script>"], ["-->"], ["'>"], ["</title>"], ["<p>"], ["<!--"], ["<textarea>"]]))
        filler2 = rng.choice(_LONG_FILLERS)
        have = sum(len(a) for a in out)
        want2 = (have // 10240 + 1) * 10240 + rng.randint(-3, 2) - have
        out.append(filler2 * max(1, want2 // len(filler2)))
        out.append("z" * max(0, want2 - (want2 // len(filler2)) * len(filler2)))
        out.append(rng.choice(["\r\n", "\r", "&amp;", "<b c=d>", "\U0001f600", "</x>", "\x00"]))
    for _ in range(rng.randint(0, 6)):
        out.append(atom(rng, surrogates_ok))
    return out


def make_huge(rng, giant=False):
    """A document with ONE run of 66-140 thousand characters (more than 2**16) in some context: thresholds on the length of
    a single token / run / document are otherwise never crossed.  giant: 1.05-2.2 million characters (2**20, 2**21)."""
    ctx = list(rng.choice([[], [], ["<!DOCTYPE html>"], ["<svg>", "<![CDATA["], ["<frameset>"], ["<?php "], ["<!x "], ["<!--"], ["<p title='"],
                           ["<script>"], ["<title>"], ["<textarea>"], ["<plaintext>"], ["<table>"], ["<pre>"], ["</body>"], ["<select>"]]))
    unit = rng.choice(["y", "word ", "ab-c ", "k=v ", "q\n", "x stray ", "\xe9 "])
    n = rng.choice([66000, 70000, 131100, 140000]) + rng.randint(-200, 200)
    if giant:
        n = rng.choice([1049000, 1100000, 1100000, 2098000, 2200000]) + rng.randint(-200, 200)
        if "-" in unit and ctx[:1] == ["<!--"]:
            # html5lib's comment states append to the comment's data once per dash: quadratic in the length of the comment
            # (2 s for 550 000 characters, half a minute for 2 million).  That is performance, which this technique does not
            # decide - but it would run into the CPU budget that stands for "does not terminate" (found by soak run 5,
            # VERIF_SEED=41: a false liveness alarm on the unchanged tree).  Giant comments are made of dash-free text.
            unit = "word "
    run = unit * (n // len(unit))
    tail = [rng.choice(["]]>", "?>", ">", "-->", "'>", "</script>", "</title>", "</textarea>", "</table>", "</pre>", ""]),
            rng.choice(["<p>after", "</i>", "&amp;", "x"])]
    return ctx + [run] + tail


def split_long_atoms(atoms, limit=64):
    """For the minimiser: break long atoms into pieces it can drop."""
    out = []
    for a in atoms:
        if len(a) <= limit:
            out.append(a)
        else:
            for i in range(0, len(a), limit):
                out.append(a[i:i + limit])
    return out
