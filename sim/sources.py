"""SimSource: the reader argument html5lib sees (transport / disk stand-in).

A source is described by a JSON-able dict

    {"kind": <kind>, "reads": [n1, n2, ...], "rest": k, "fail_at": null|int}

``reads`` is the read schedule: the i-th call of read(n) with n > 0 returns
min(n, reads[i]) items; after the list is exhausted every read returns
min(n, rest) items.  ``fail_at`` = k makes the k-th (0-based) positive read
raise SimIOError.

Every source keeps an event log and enforces the liveness budget (counted in
read calls, never in seconds).
"""
from __future__ import annotations

import http.client
import io

TEXT_KINDS = ("str", "stringio", "textwrapper", "simtext")
BYTE_KINDS = ("bytes", "bytesio", "simbytes_seek", "simbytes_noseek",
              "simbytes_seekraises", "http_plain", "http_chunked", "http_addinfourl")
SIM_KINDS = ("simtext", "simbytes_seek", "simbytes_noseek", "simbytes_seekraises",
             "http_plain", "http_chunked", "http_addinfourl")
NONSEEK_KINDS = ("simbytes_noseek", "simbytes_seekraises", "http_plain", "http_chunked", "http_addinfourl")


# Set by the thread scheduler (sim/baton.py) for the duration of a threaded run: every read on a simulated transport is a
# point at which the calling thread may block and other threads run - the reader is this library's network.
READ_HOOK = [None]


def _io_point():
    h = READ_HOOK[0]
    if h is not None:
        h()


class SimIOError(OSError):
    """Injected failure of the input source."""


class SimBudgetExceeded(Exception):
    """The code under simulation kept reading beyond the liveness budget."""


class SimCancelled(Exception):
    """Injected cancellation between two tokens."""


class ReadLog(object):
    """Event log + budget shared by one source."""

    def __init__(self, payload_len, state_fn=None):
        self.events = []          # (seq, op, requested, returned, offset, state)
        self.payload_len = payload_len
        self.budget_total = 8 * payload_len + 256
        self.after_eof = 0
        self.reads = 0
        self.state_fn = state_fn
        self.short_reads = 0
        self.one_item_reads = 0
        self.boundaries = []      # offsets (strictly inside the payload) where a read ended
        self.states_at_read = []  # parallel to boundaries: tokenizer state at that read

    def record(self, op, requested, returned, offset):
        st = None
        if self.state_fn is not None:
            st = self.state_fn()
        self.events.append((len(self.events), op, requested, returned, offset, st))
        return st

    def on_read(self, requested, returned, offset_after, at_eof):
        st = self.record("read", requested, returned, offset_after)
        self.reads += 1
        if returned == 0 and requested != 0:
            self.after_eof += 1
            if self.after_eof > 64:
                raise SimBudgetExceeded("more than 64 reads after EOF")
        if self.reads > self.budget_total:
            raise SimBudgetExceeded("more than %d reads for a payload of %d items"
                                    % (self.budget_total, self.payload_len))
        if requested and 0 < returned < requested and not at_eof:
            self.short_reads += 1
        if returned == 1 and requested > 1 and not at_eof:
            self.one_item_reads += 1
        if returned and 0 < offset_after < self.payload_len:
            self.boundaries.append(offset_after)
            self.states_at_read.append(st)


class _Sched(object):
    def __init__(self, spec):
        self.reads = list(spec.get("reads") or [])
        self.rest = int(spec.get("rest") or 1)
        self.fail_at = spec.get("fail_at")
        self.i = 0       # index of positive reads performed

    def next_len(self, n):
        if self.fail_at is not None and self.i == self.fail_at:
            self.i += 1
            raise SimIOError("injected read failure at read #%d" % self.fail_at)
        if self.i < len(self.reads):
            k = self.reads[self.i]
        else:
            k = self.rest
        self.i += 1
        if k < 1:
            k = 1
        if n is None or n < 0:
            return k
        return min(n, k)


class SimText(object):
    """A text file-like object with short reads; no seek/tell (text streams
    are only ever read forward by html5lib)."""

    def __init__(self, payload, spec, log):
        self.payload = payload
        self.pos = 0
        self.sched = _Sched(spec)
        self.log = log

    def read(self, n=-1):
        if n == 0:
            self.log.record("read0", 0, 0, self.pos)
            return ""
        _io_point()
        k = self.sched.next_len(n)
        data = self.payload[self.pos:self.pos + k]
        self.pos += len(data)
        self.log.on_read(n, len(data), self.pos, self.pos >= len(self.payload))
        return data


class SimBytes(object):
    """A binary file-like object with short reads and selectable capabilities."""

    def __init__(self, payload, spec, log, mode):
        self.payload = payload
        self.pos = 0
        self.sched = _Sched(spec)
        self.log = log
        self.mode = mode
        if mode == "seek":
            self.seek = self._seek
            self.tell = self._tell
        elif mode == "seekraises":
            self.seek = self._seek_raises
            self.tell = self._seek_raises
        # mode == "noseek": no seek/tell attributes at all

    def read(self, n=-1):
        if n == 0:
            self.log.record("read0", 0, 0, self.pos)
            return b""
        _io_point()
        k = self.sched.next_len(n)
        data = self.payload[self.pos:self.pos + k]
        self.pos += len(data)
        self.log.on_read(n, len(data), self.pos, self.pos >= len(self.payload))
        return data

    def _seek(self, pos, whence=0):
        assert whence == 0
        self.log.record("seek", pos, 0, self.pos)
        self.pos = pos
        return pos

    def _tell(self):
        self.log.record("tell", 0, 0, self.pos)
        return self.pos

    def _seek_raises(self, *a):
        self.log.record("seek_raises", 0, 0, self.pos)
        raise io.UnsupportedOperation("not seekable")


class _FakeSocketFile(object):
    """What http.client reads the response from.  readline() is used for the
    status line / headers / chunk sizes and always returns whole lines; read()
    follows the schedule when ``short`` is set, otherwise is a full read (the
    chunked decoder treats a short read as IncompleteRead, as it would on a
    real socket opened through a BufferedReader)."""

    def __init__(self, raw, body_start, spec, log, short):
        self.raw = raw
        self.pos = 0
        self.body_start = body_start
        self.sched = _Sched(spec)
        self.log = log
        self.short = short
        self.closed = False

    def readline(self, limit=-1):
        j = self.raw.find(b"\n", self.pos)
        j = len(self.raw) if j < 0 else j + 1
        if limit is not None and limit >= 0:
            j = min(j, self.pos + limit)
        data = self.raw[self.pos:j]
        self.pos = j
        return data

    def read(self, n=-1):
        if n == 0:
            return b""
        if self.short:
            k = self.sched.next_len(n)
        else:
            # still consult the schedule so that an injected failure fires
            self.sched.next_len(n)
            k = len(self.raw) if (n is None or n < 0) else n
        data = self.raw[self.pos:self.pos + k]
        self.pos += len(data)
        if self.short:
            off = self.pos - self.body_start
            self.log.on_read(n, len(data), off, self.pos >= len(self.raw))
        else:
            self.log.record("sockread", n, len(data), self.pos)
        return data

    def readinto(self, b):
        data = self.read(len(b))
        b[:len(data)] = data
        return len(data)

    def flush(self):
        pass

    def close(self):
        self.closed = True


class _FakeSocket(object):
    def __init__(self, f):
        self.f = f

    def makefile(self, mode, *a, **kw):
        return self.f


def make_http_response(payload, spec, log, chunked):
    if chunked:
        head = b"HTTP/1.1 200 OK\r\nTransfer-Encoding: chunked\r\nContent-Type: text/html\r\n\r\n"
        sizes = list(spec.get("reads") or [])
        rest = max(1, int(spec.get("rest") or 1))
        body = []
        pos = 0
        i = 0
        while pos < len(payload):
            k = sizes[i] if i < len(sizes) else rest
            k = max(1, k)
            i += 1
            piece = payload[pos:pos + k]
            pos += len(piece)
            body.append(("%x" % len(piece)).encode("ascii") + b"\r\n" + piece + b"\r\n")
            if 0 < pos < len(payload):
                log.boundaries.append(pos)
                log.states_at_read.append(None)
        body.append(b"0\r\n\r\n")
        raw = head + b"".join(body)
        f = _FakeSocketFile(raw, len(head), {"fail_at": spec.get("fail_at"), "rest": 1 << 30}, log, short=False)
    else:
        head = ("HTTP/1.1 200 OK\r\nContent-Length: %d\r\nContent-Type: text/html\r\n\r\n"
                % len(payload)).encode("ascii")
        raw = head + payload
        f = _FakeSocketFile(raw, len(head), spec, log, short=True)
    resp = http.client.HTTPResponse(_FakeSocket(f), method="GET")
    resp.begin()
    return resp


def make_source(kind, payload, spec, log):
    """Build the object handed to html5lib.  ``payload`` is str for text
    kinds, bytes for byte kinds."""
    if kind == "str" or kind == "bytes":
        return payload
    if kind == "stringio":
        return io.StringIO(payload, newline="")
    if kind == "textwrapper":
        # a real TextIOWrapper over UTF-8 bytes; lone surrogates are excluded
        # by the generator for this kind
        return io.TextIOWrapper(io.BytesIO(payload.encode("utf-8")), encoding="utf-8", newline="")
    if kind == "simtext":
        return SimText(payload, spec, log)
    if kind == "bytesio":
        return io.BytesIO(payload)
    if kind == "simbytes_seek":
        return SimBytes(payload, spec, log, "seek")
    if kind == "simbytes_noseek":
        return SimBytes(payload, spec, log, "noseek")
    if kind == "simbytes_seekraises":
        return SimBytes(payload, spec, log, "seekraises")
    if kind == "http_plain":
        return make_http_response(payload, spec, log, chunked=False)
    if kind == "http_chunked":
        return make_http_response(payload, spec, log, chunked=True)
    if kind == "http_addinfourl":
        # what urllib.request.urlopen returns for http(s): addinfourl wrapping
        # the HTTPResponse (the second branch of HTMLInputStream's work-around)
        import urllib.response
        resp = make_http_response(payload, spec, log, chunked=False)
        return urllib.response.addinfourl(resp, resp.headers, "http://sim.invalid/", 200)
    raise ValueError("unknown source kind %r" % (kind,))
