"""M4: the FIRST calls of a process, raced by several threads (C12, "whatever other parses run concurrently in other threads").

Everything else in this harness imports every html5lib sub-module before the first run.  A real process does not: the tree
builder and tree walker modules (treebuilders.dom / .etree, treewalkers.dom / .etree), the serializer's filter modules,
xml.dom.minidom and the codec modules are imported lazily INSIDE the first library call that needs them, and a server's
thread pool typically makes those first calls at the same time.  While one thread executes a module body, sys.modules already
holds the half-initialised module; what keeps another thread from using it is the import system's per-module lock - provided
the library goes through the import system.

`python -m sim.firstcall` is a bare interpreter: it has executed `import html5lib` (what a user's program does) and nothing
more.  For every request it fork()s a child; the child runs 2-3 real threads, each making its first library calls, one at a
time under a seeded scheduler with sys.settrace line events in html5lib / xml / webencodings / encodings frames as
pre-emption points - including the frames of module bodies, i.e. while a module is half-imported.

The one place where a simulated thread would really block is the per-module import lock held by a parked thread; that
synchronisation point is intercepted (importlib._bootstrap._ModuleLock.acquire is replaced, in the child only, by a version
that hands the baton back to the scheduler instead of blocking and retries when it is scheduled again; lock semantics and the
import system's own deadlock detection are unchanged).  Frames of the import system itself are never pre-empted (they hold
the C-level global import lock and the lock's own RLock for a few instructions at a time).

Oracle: every thread's outcome equals the outcome of the same calls made alone in another bare child, and so does a repeat
of every call after the race (a half-initialised module that was cached somewhere would show there).

Wire format (both directions): 8-byte big-endian length + pickle.
"""
from __future__ import annotations

import hashlib
import json
import os
import pickle
import random
import select
import struct
import subprocess
import sys
import threading

MAX_STEPS = 1500000
MAX_BLOCKED_SPINS = 20000
CHILD_WALL_S = 90


# ======================================================================================================================
# operations: first calls through the public API only

DOCS = [
    ["<!DOCTYPE html>", "<title>t</title>", "<p a=b>x&amp;y", "<table><tr><td>z</table>", "<!--c-->"],
    ["<p>", "x", "<b>", "y", "</p>", "z"], ["<table>", "x", "<tr><td>", "y"], ["<svg><g/><a xlink:href=u>", "x"],
    ["<select><option>a<option>b"], ["<pre>\n", "x</pre>", "<textarea>\ny</textarea>"], ["<a href='javascript:x' title=t>", "y", "<script>z</script>"],
    ["<ul><li>a<li>b</ul>", "<input disabled>", "<br>"], ["&notin;&CounterClockwiseContourIntegral;&#x80;"], ["caf\xe9 €", "<i>", "\U0001f600"],
    ["<math><mi>x</mi><annotation-xml encoding=text/html><p>", "q"], ["<form><form>", "<button><button>"], [""], ["x"],
]
BYTE_DOCS = [
    (b"<meta charset=koi8-r><p>\xc1\xc2", {}), (b"<title>x</title>" + b"y" * 1100 + b"<meta charset=shift_jis><p>\x82\xa0", {}),
    (b"<p>\xe9", {"transport_encoding": "iso-8859-2"}), (b"\xff\xfe<\x00p\x00>\x00", {}), (b"<p>\xa4\xa2", {"override_encoding": "euc-jp"}),
    (b"<meta charset=euc-kr>\xb0\xa1", {}), (b"<p>\xe6", {"likely_encoding": "windows-1251"}), (b"<meta charset=big5>\xa4\x40", {}),
    (b"<meta charset=gbk>\x81\x40", {}), (b"<p>\xe9", {"default_encoding": "macintosh"}),
]
SER_OPTS = [{}, {"sanitize": True}, {"strip_whitespace": True}, {"alphabetical_attributes": True}, {"inject_meta_charset": True},
            {"omit_optional_tags": False}, {"sanitize": True, "alphabetical_attributes": True, "strip_whitespace": True},
            {"omit_optional_tags": True, "inject_meta_charset": False}]


def _canon_result(kind, tb, value):
    from . import canon
    if kind == "tree":
        return canon.canon_tree(value, "dom" if tb == "dom" else "etree")
    return value


def run_first_op(op):
    """-> ("ok", kind, treebuilder, raw value[, errors]) | ("raise", type name, message)."""
    import html5lib
    api = op["api"]
    tb = op.get("tb", "etree")
    doc = bytes.fromhex(op["hex"]) if "hex" in op else "".join(op.get("doc") or [])
    kw = dict(op.get("kwargs") or {})
    try:
        if api == "parse":
            return ("ok", "tree", tb, html5lib.parse(doc, treebuilder=tb, namespaceHTMLElements=op.get("ns", True), **kw))
        if api == "frag":
            return ("ok", "tree", tb, html5lib.parseFragment(doc, container=op.get("container", "div"), treebuilder=tb, **kw))
        if api == "parser":
            p = html5lib.HTMLParser(tree=html5lib.getTreeBuilder(tb), namespaceHTMLElements=op.get("ns", True))
            tree = p.parse(doc, **kw)
            enc = p.documentEncoding if "hex" in op else None
            return ("ok", "tree", tb, tree, [(str(code), pos[0], pos[1]) for pos, code, _v in p.errors], enc)
        if api == "get_builder":
            cls = html5lib.getTreeBuilder(tb)
            inst = cls(True)
            return ("ok", "value", tb, (cls.__name__, sorted(n for n in ("documentClass", "elementClass", "commentClass", "doctypeClass",
                                                                        "fragmentClass") if getattr(inst, n, None) is not None)))
        if api == "get_walker":
            cls = html5lib.getTreeWalker(tb)
            return ("ok", "value", tb, (cls.__name__, hasattr(cls, "__iter__")))
        if api == "walk":
            tree = html5lib.parse(doc, treebuilder=tb)
            walker = html5lib.getTreeWalker(tb)
            toks = []
            for t in walker(tree):
                t = dict(t)
                if "data" in t and isinstance(t["data"], dict):
                    t["data"] = sorted((k, v) for k, v in t["data"].items())
                toks.append(sorted(t.items(), key=lambda kv: kv[0]))
            return ("ok", "value", tb, toks)
        if api == "serialize":
            tree = html5lib.parse(doc, treebuilder=tb)
            return ("ok", "value", tb, html5lib.serialize(tree, tree=tb, **(op.get("opts") or {})))
        return ("raise", "HarnessError", "unknown api %r" % (api,))
    except Exception as e:  # noqa
        return ("raise", type(e).__name__, str(e)[:200])


def _finish(out):
    """Canonical, picklable form of an outcome (after the race: imports the canonicaliser)."""
    if out is None:
        return ("no-result",)
    if out[0] != "ok":
        return out
    return ("ok", out[1], _canon_result(out[1], out[2], out[3])) + tuple(out[4:])


# ======================================================================================================================
# the scheduler (runs in the forked child)

class StepBudgetExceeded(BaseException):
    pass


class _W(object):
    def __init__(self, tid, fn):
        self.tid = tid
        self.fn = fn
        self.sem = threading.Semaphore(0)
        self.done = False
        self.blocked = False
        self.quantum_left = None
        self.result = None
        self.error = None
        self.thread = None


class FirstCallSched(object):
    def __init__(self, fns, dirs, rng=None, quanta=None, p_line=0.02, p_module=0.2):
        self.ws = [_W(i, f) for i, f in enumerate(fns)]
        self.dirs = tuple(dirs)
        self.rng = rng
        self.replay = list(quanta) if quanta is not None else None
        self.p_line, self.p_module = p_line, p_module
        self.sched_sem = threading.Semaphore(0)
        self.by_thread = {}
        self.taken = []
        self.total_steps = 0
        self.cur_steps = 0
        self.preemptions = 0
        self.module_preemptions = 0
        self.blocked_yields = 0
        self.spins = 0
        self.overrun = None
        self.where = []            # (tid, file basename, co_name) of every pre-emption inside a module body

    # ---- worker side
    def _tracer_for(self, w):
        sched = self
        dirs = self.dirs
        import _imp

        def local(frame, event, arg):
            if event != "line":
                return local
            sched.total_steps += 1
            sched.cur_steps += 1
            if sched.total_steps > MAX_STEPS:
                sched.overrun = "steps"
                raise StepBudgetExceeded()
            if _imp.lock_held():
                return local
            if sched.replay is not None:
                if w.quantum_left is not None:
                    w.quantum_left -= 1
                    if w.quantum_left <= 0:
                        sched._yield(w, frame)
                return local
            in_module = frame.f_code.co_name == "<module>"
            if sched.rng.random() < (sched.p_module if in_module else sched.p_line):
                sched._yield(w, frame)
            return local

        def tracer(frame, event, arg):
            if sched.overrun:
                raise StepBudgetExceeded()
            if frame.f_code.co_filename.startswith(dirs):
                return local
            return None
        return tracer

    def _yield(self, w, frame):
        others = [o for o in self.ws if not o.done and o is not w]
        if not others:
            return
        self.preemptions += 1
        # is some module body on this thread's stack, i.e. is a module half-imported right now?
        f = frame
        while f is not None:
            if f.f_code.co_name == "<module>" and f.f_code.co_filename.startswith(self.dirs):
                self.module_preemptions += 1
                self.where.append((w.tid, os.path.basename(f.f_code.co_filename), frame.f_code.co_name))
                break
            f = f.f_back
        self.sched_sem.release()
        w.sem.acquire()

    def blocked_point(self):
        """Called by the cooperative module lock: the calling thread cannot have the lock now."""
        w = self.by_thread.get(threading.get_ident())
        if w is None:
            return False
        self.blocked_yields += 1
        self.spins += 1
        self.cur_steps += 1
        if self.spins > MAX_BLOCKED_SPINS:
            self.overrun = "import-deadlock"
            raise StepBudgetExceeded()
        w.blocked = True
        self.sched_sem.release()
        w.sem.acquire()
        w.blocked = False
        return True

    def _run_worker(self, w):
        w.sem.acquire()
        self.by_thread[threading.get_ident()] = w
        sys.settrace(self._tracer_for(w))
        try:
            w.result = w.fn()
        except BaseException as e:  # noqa
            w.error = e
        finally:
            sys.settrace(None)
            w.done = True
            self.sched_sem.release()

    # ---- scheduler side
    def run(self):
        for w in self.ws:
            w.thread = threading.Thread(target=self._run_worker, args=(w,), name="first-call-%d" % w.tid)
            w.thread.daemon = True
            w.thread.start()
        ri = 0
        last = None
        while True:
            alive = [w for w in self.ws if not w.done]
            if not alive:
                break
            if self.replay is not None:
                w = None
                while ri < len(self.replay):
                    tid, steps = self.replay[ri]
                    ri += 1
                    if tid < len(self.ws) and not self.ws[tid].done:
                        w = self.ws[tid]
                        w.quantum_left = steps if steps >= 0 else None
                        break
                if w is None:
                    # schedule exhausted: round-robin, so that a thread waiting for a module lock cannot starve its owner
                    order = [x for x in alive if last is None or x.tid > last.tid] + [x for x in alive if last is not None and x.tid <= last.tid]
                    w = order[0]
                    w.quantum_left = None
            else:
                ready = [x for x in alive if not x.blocked] or alive
                w = ready[self.rng.randrange(len(ready))] if len(ready) > 1 else ready[0]
            last = w
            self.cur_steps = 0
            was_blocked = w.blocked
            w.sem.release()
            if not self.sched_sem.acquire(timeout=CHILD_WALL_S):
                import faulthandler
                faulthandler.dump_traceback(all_threads=True)
                raise RuntimeError("first-call scheduler: thread %d did not yield within %d s" % (w.tid, CHILD_WALL_S))
            if not (was_blocked and w.blocked):
                self.spins = 0
            self.taken.append((w.tid, -1 if w.done else self.cur_steps))
        for w in self.ws:
            w.thread.join(timeout=10)
        return [w.result for w in self.ws], [w.error for w in self.ws]


def _install_cooperative_module_lock(sched):
    """Only in the forked child: a thread that finds a module's import lock held by another thread yields to the scheduler
    and tries again later, instead of blocking in C while the owner is parked."""
    import importlib._bootstrap as ib
    import _thread
    original = ib._ModuleLock.acquire

    def acquire(self):
        tid = _thread.get_ident()
        if tid not in sched.by_thread:
            return original(self)
        with ib._BlockingOnManager(tid, self):
            while True:
                with self.lock:
                    if self.count == [] or self.owner == tid:
                        self.owner = tid
                        self.count.append(True)
                        return True
                    if self.has_deadlock():
                        raise ib._DeadlockError("deadlock detected by %r" % (self,))
                sched.blocked_point()
    ib._ModuleLock.acquire = acquire


def _trace_dirs():
    import html5lib
    import xml
    import encodings
    import webencodings
    return [os.path.dirname(os.path.abspath(m.__file__)) + os.sep for m in (html5lib, xml, encodings, webencodings)]


def run_race(case):
    """In the child.  -> picklable result dict."""
    before = set(sys.modules)

    def make(ops):
        def fn():
            return [run_first_op(op) for op in ops]
        return fn
    fns = [make(t["ops"]) for t in case["threads"]]
    if case.get("quanta") is not None:
        sched = FirstCallSched(fns, _trace_dirs(), quanta=[tuple(q) for q in case["quanta"]])
    else:
        sched = FirstCallSched(fns, _trace_dirs(), rng=random.Random(case["sched_seed"]), p_line=case.get("p_line", 0.02),
                               p_module=case.get("p_module", 0.2))
    _install_cooperative_module_lock(sched)
    results, errors = sched.run()
    imported = sorted(m for m in set(sys.modules) - before if m.startswith(("html5lib", "xml", "encodings", "webencodings", "_codecs", "_multibytecodec")))
    out = {"overrun": sched.overrun, "taken": [list(q) for q in sched.taken], "steps": sched.total_steps, "preemptions": sched.preemptions,
           "module_preemptions": sched.module_preemptions, "blocked_yields": sched.blocked_yields, "where": sched.where,
           "imported": imported, "errors": [None if e is None else "%s: %s" % (type(e).__name__, e) for e in errors]}
    if sched.overrun:
        out["threads"] = None
        out["post"] = None
        return out
    out["threads"] = [[_finish(o) for o in (rs or [])] for rs in results]
    # after the race, alone on the main thread: every call once more
    out["post"] = [[_finish(run_first_op(op)) for op in t["ops"]] for t in case["threads"]]
    return out


def run_alone(ops):
    return [_finish(run_first_op(op)) for op in ops]


# ======================================================================================================================
# the bare server

def _read_exact(fd, n):
    buf = b""
    while len(buf) < n:
        piece = os.read(fd, n - len(buf))
        if not piece:
            raise EOFError
        buf += piece
    return buf


def _write_all(fd, data):
    view = memoryview(data)
    while view:
        n = os.write(fd, view)
        view = view[n:]


def _serve():
    repo = os.path.abspath(os.environ.get("VERIF_REPO", "/repo"))
    sys.dont_write_bytecode = True
    while repo in sys.path:
        sys.path.remove(repo)
    sys.path.insert(0, repo)
    import html5lib  # the ONLY thing a bare process has done
    if not os.path.abspath(html5lib.__file__).startswith(repo + os.sep):
        raise SystemExit("harness error: html5lib imported from %s, not from %s" % (html5lib.__file__, repo))
    import faulthandler
    inp, out = sys.stdin.fileno(), sys.stdout.fileno()
    while True:
        try:
            head = _read_exact(inp, 8)
        except EOFError:
            return 0
        (n,) = struct.unpack(">Q", head)
        req = pickle.loads(_read_exact(inp, n))
        r, w = os.pipe()
        pid = os.fork()
        if pid == 0:
            os.close(r)
            try:
                faulthandler.dump_traceback_later(CHILD_WALL_S + 20, exit=True)
                if req["kind"] == "race":
                    res = run_race(req["case"])
                elif req["kind"] == "alone":
                    res = run_alone(req["ops"])
                elif req["kind"] == "modules":
                    res = sorted(sys.modules)
                else:
                    raise ValueError(req["kind"])
                data = pickle.dumps(("ok", res))
            except BaseException as e:  # noqa
                import traceback
                data = pickle.dumps(("harness-error", "%s: %s\n%s" % (type(e).__name__, e, traceback.format_exc()[-1500:])))
            _write_all(w, data)
            os._exit(0)
        os.close(w)
        chunks = []
        while True:
            piece = os.read(r, 1 << 16)
            if not piece:
                break
            chunks.append(piece)
        os.close(r)
        os.waitpid(pid, 0)
        data = b"".join(chunks)
        if not data:
            data = pickle.dumps(("harness-error", "child died without an answer"))
        _write_all(out, struct.pack(">Q", len(data)) + data)


class BareServer(object):
    """Client side, one per worker process, started lazily."""

    def __init__(self):
        self.proc = None
        self.pid_owner = None
        self.memo = {}
        self.requests = 0

    def _start(self):
        from . import env
        envv = dict(os.environ)
        envv.pop("PYTHONHASHSEED", None)      # a different (random) string-hash seed in every bare interpreter
        envv["VERIF_REPO"] = env.REPO
        envv["PYTHONDONTWRITEBYTECODE"] = "1"
        self.proc = subprocess.Popen([sys.executable, "-m", "sim.firstcall"], cwd=env.VERIF_DIR, env=envv, stdin=subprocess.PIPE,
                                     stdout=subprocess.PIPE, bufsize=0)
        self.pid_owner = os.getpid()

    def request(self, req, key=None):
        if key is not None and key in self.memo:
            return self.memo[key]
        if self.proc is None or self.pid_owner != os.getpid() or self.proc.poll() is not None:
            self._start()
        data = pickle.dumps(req)
        self.proc.stdin.write(struct.pack(">Q", len(data)) + data)
        self.proc.stdin.flush()
        fd = self.proc.stdout.fileno()
        ready, _, _ = select.select([fd], [], [], CHILD_WALL_S + 60)
        if not ready:
            self.proc.kill()
            self.proc = None
            raise RuntimeError("bare interpreter did not answer within %d s (harness watchdog)" % (CHILD_WALL_S + 60))
        (n,) = struct.unpack(">Q", _read_exact(fd, 8))
        status, res = pickle.loads(_read_exact(fd, n))
        if status != "ok":
            raise RuntimeError("bare child failed: %s" % (res,))
        self.requests += 1
        if key is not None:
            if len(self.memo) > 4000:
                self.memo.clear()
            self.memo[key] = res
        return res

    def close(self):
        if self.proc is not None and self.pid_owner == os.getpid():
            try:
                self.proc.stdin.close()
                self.proc.wait(timeout=5)
            except Exception:
                self.proc.kill()
        self.proc = None


BARE = BareServer()


# ======================================================================================================================
# generation, execution, minimisation (worker side; imports nothing of the above into the bare interpreter)

THEMES = {
    "dom_builder": [("parse", "dom"), ("frag", "dom"), ("parser", "dom"), ("get_builder", "dom"), ("serialize", "dom"), ("walk", "dom")],
    "etree_builder": [("parse", "etree"), ("frag", "etree"), ("parser", "etree"), ("get_builder", "etree")],
    "walkers": [("walk", "dom"), ("walk", "etree"), ("get_walker", "dom"), ("get_walker", "etree"), ("serialize", "etree"), ("serialize", "dom")],
    "filters": [("serialize", "etree"), ("serialize", "etree"), ("serialize", "dom")],
    "codecs": [("parser", "etree"), ("parse", "etree"), ("parse", "dom")],
}


def _gen_op(rng, theme):
    api, tb = rng.choice(THEMES[theme]) if rng.random() < 0.75 else rng.choice(THEMES[rng.choice(sorted(THEMES))])
    op = {"api": api, "tb": tb}
    if api in ("get_builder", "get_walker"):
        return op
    if theme == "codecs" and api in ("parse", "parser") or (api in ("parse", "parser") and rng.random() < 0.15):
        raw, kw = rng.choice(BYTE_DOCS)
        op["hex"] = raw.hex()
        if kw:
            op["kwargs"] = dict(kw)
        return op
    op["doc"] = list(rng.choice(DOCS))
    if api == "serialize":
        op["opts"] = dict(rng.choice(SER_OPTS)) if theme != "filters" else dict(rng.choice(SER_OPTS[1:]))
    if api == "frag":
        op["container"] = rng.choice(["div", "td", "select", "svg", "title"])
    if api in ("parse", "parser") and rng.random() < 0.2:
        op["ns"] = False
    return op


def gen_case(rng):
    theme = rng.choice(sorted(THEMES))
    n = rng.choice([2, 2, 2, 3])
    threads = []
    for _ in range(n):
        threads.append({"ops": [_gen_op(rng, theme) for _ in range(rng.choice([1, 1, 2]))]})
    if rng.random() < 0.4:
        # the same first call in every thread
        threads = [{"ops": [dict(threads[0]["ops"][0])] + t["ops"][1:]} for t in threads]
    return {"prop": "C12", "stream": "M4", "theme": theme, "threads": threads, "sched_seed": rng.getrandbits(48),
            "p_line": rng.choice([0.003, 0.02, 0.1]), "p_module": rng.choice([0.05, 0.2, 0.5])}


def _digest(obj):
    return hashlib.sha256(repr(obj).encode("utf-8", "surrogatepass")).hexdigest()


def _brief(obj, limit=200):
    s = repr(obj)
    return s if len(s) <= limit else s[:limit] + "...(%d chars)" % len(s)


def execute(case):
    stats = {"faults": {}, "probes": {}, "steps": 0, "reach": [], "nontrivial": False, "fault_free": True}
    res = {"ok": True, "oracle": None, "detail": "", "known": None, "stats": stats}
    refs = []
    for t in case["threads"]:
        key = json.dumps(t["ops"], sort_keys=True)
        refs.append(BARE.request({"kind": "alone", "ops": t["ops"]}, key="alone|" + key))
    req_case = {k: case[k] for k in ("threads", "sched_seed", "p_line", "p_module", "quanta") if k in case}
    out = BARE.request({"kind": "race", "case": req_case})
    stats["steps"] = out["steps"]
    f = stats["faults"]
    if out["preemptions"]:
        f["preemption"] = out["preemptions"]
    if out["module_preemptions"]:
        f["preemption_while_a_module_is_half_imported"] = out["module_preemptions"]
    if out["blocked_yields"]:
        f["thread_waits_for_module_import_lock"] = out["blocked_yields"]
    P = stats["probes"]
    P["first_call_races"] = 1
    P["preemptions"] = out["preemptions"]
    if out["module_preemptions"]:
        P["race_with_half_imported_module"] = 1
    if out["blocked_yields"]:
        P["import_lock_contention"] = 1
    P["modules_imported_during_race"] = len(out["imported"])
    stats["reach"] = sorted(set("%s|%s" % (w[1], w[2]) for w in out["where"]))
    stats["nontrivial"] = out["module_preemptions"] > 0
    stats["fault_free"] = out["preemptions"] == 0
    res["digest"] = _digest((out["taken"], out["threads"], out["post"], out["imported"]))
    explicit = dict(case, quanta=out["taken"])

    def fail(oracle, detail):
        res["ok"] = False
        res["oracle"] = oracle
        res["detail"] = detail
        res["explicit_case"] = explicit
        return res
    if out["overrun"] == "import-deadlock":
        return fail("liveness", "threads wait for each other's module import locks for ever (%d consecutive waits)" % MAX_BLOCKED_SPINS)
    if out["overrun"]:
        return fail("liveness", "more than %d line steps in one first-call race" % MAX_STEPS)
    for tid, e in enumerate(out["errors"]):
        if e is not None:
            return fail("thread-exception", "thread %d died with %s" % (tid, e))
    for tid, (t, got, ref) in enumerate(zip(case["threads"], out["threads"], refs)):
        for k, op in enumerate(t["ops"]):
            if k >= len(got) or got[k] != ref[k]:
                return fail("first-call", "thread %d call %d (%s, %s): %s when its first calls race with other threads', %s when the "
                            "same calls are made alone in a bare interpreter" % (tid, k, op["api"], op.get("tb"),
                                                                                 _brief(got[k] if k < len(got) else None), _brief(ref[k])))
    for tid, (t, got) in enumerate(zip(case["threads"], out["post"])):
        # (a thread's second call follows its first in the reference too; after the race every call is compared with
        # the outcome of that call at its position in the reference)
        for k, op in enumerate(t["ops"]):
            if got[k] != refs[tid][k]:
                return fail("first-call-poison", "after the race, thread %d's call %d (%s, %s) repeated alone gives %s, in a bare "
                            "interpreter without the race %s" % (tid, k, op["api"], op.get("tb"), _brief(got[k]), _brief(refs[tid][k])))
    return res


def shrinks(case):
    if case.get("quanta") is None:
        r = execute(case)
        if r.get("explicit_case") is not None:
            yield r["explicit_case"]
        return
    q = case["quanta"]
    threads = case["threads"]
    if len(threads) > 1:
        for t in range(len(threads)):
            nt = threads[:t] + threads[t + 1:]
            nq = [[a - (1 if a > t else 0), s] for a, s in q if a != t]
            yield dict(case, threads=nt, quanta=nq)
    for t, ts in enumerate(threads):
        if len(ts["ops"]) > 1:
            for k in range(len(ts["ops"])):
                yield dict(case, threads=threads[:t] + [dict(ts, ops=ts["ops"][:k] + ts["ops"][k + 1:])] + threads[t + 1:])
    for t, ts in enumerate(threads):
        for k, op in enumerate(ts["ops"]):
            simpler = []
            if op["api"] in ("parse", "frag", "parser", "serialize") and op["api"] != "get_builder":
                simpler.append({"api": "get_builder", "tb": op.get("tb", "etree")})
            if op["api"] == "walk":
                simpler.append({"api": "get_walker", "tb": op.get("tb", "etree")})
            if "doc" in op and len(op["doc"]) > 1:
                simpler.append(dict(op, doc=op["doc"][:1]))
            if op.get("opts"):
                simpler.append(dict(op, opts={}))
            for s in simpler:
                yield dict(case, threads=threads[:t] + [dict(ts, ops=ts["ops"][:k] + [s] + ts["ops"][k + 1:])] + threads[t + 1:])
    n = len(q)
    if n > 1:
        yield dict(case, quanta=q[:n // 2])
        yield dict(case, quanta=q[:-1])
        for i in range(n - 1):
            if q[i][0] == q[i + 1][0]:
                merged = -1 if (q[i][1] < 0 or q[i + 1][1] < 0) else q[i][1] + q[i + 1][1]
                yield dict(case, quanta=q[:i] + [[q[i][0], merged]] + q[i + 2:])
        for i in range(n):
            yield dict(case, quanta=q[:i] + q[i + 1:])


def describe(case):
    def d(op):
        o = {k: v for k, v in op.items() if k not in ("doc", "hex")}
        if "doc" in op:
            t = "".join(op["doc"])
            o["text"] = t if len(t) <= 100 else t[:100] + "..."
        if "hex" in op:
            o["bytes"] = repr(bytes.fromhex(op["hex"])[:60])
        return o
    q = case.get("quanta")
    return {"stream": "M4", "what": "first library calls of a bare interpreter (only `import html5lib` executed), raced by threads",
            "threads": [[d(op) for op in t["ops"]] for t in case["threads"]], "sched_seed": case.get("sched_seed"),
            "quanta": q if q is None or len(q) <= 40 else q[:40] + ["...%d more" % (len(q) - 40)]}


if __name__ == "__main__":
    sys.exit(_serve())
