"""Greedy delta-debugging over engine-provided shrink candidates.

No PRNG is involved: every candidate is an explicit case and is re-executed.
A candidate is accepted only while the *same oracle* (and the same
known-finding classification) still fails.
"""
from __future__ import annotations

import time


def same_failure(res, oracle, known):
    return (not res["ok"]) and res["oracle"] == oracle and res.get("known") == known


def minimise(engine, case, res, max_exec=400, max_s=30.0):
    oracle, known = res["oracle"], res.get("known")
    t0 = time.monotonic()
    execs = 0
    best, best_res = case, res
    improved = True
    while improved:
        improved = False
        for cand in engine.shrinks(best):
            if execs >= max_exec or time.monotonic() - t0 > max_s:
                return best, best_res, execs
            execs += 1
            try:
                r = engine.execute(cand)
            except Exception:
                continue
            if same_failure(r, oracle, known):
                best, best_res = cand, r
                improved = True
                break
    return best, best_res, execs
