"""C06 (scoped) - encoding precedence, sniffing under delivery, restart consistency.

A document is built from structured parts so that the *generator* knows where
every declaration is, what it says and who can see it; the ground truth is
computed from that record, never by re-scanning the bytes.

Oracles
  O1 delivery  : (documentEncoding, tree, errors) equal to the plain-bytes
                 delivery of the same bytes and arguments
  O2 restart   : tree, errors == parse(decode(bytes without BOM,
                 documentEncoding)) - nothing of an abandoned first attempt
                 survives, no byte lost or duplicated by the rewind
  O3 precedence: documentEncoding == ground truth where it is defined
  liveness     : read budget
"""
from __future__ import annotations

import codecs

from . import env  # noqa: F401
from . import probes, sources
from .canon import canon_etree, canon_errors, first_diff, brief
from .sources import ReadLog, SimBudgetExceeded, make_source
from . import c05

import html5lib
from html5lib import _inputstream, treebuilders
import webencodings

PROP = "C06"

VALID = ["csiso2022jp", "ISO-2022-JP", "utf-8", "UTF-8", "utf8", "windows-1252", "latin1", "ISO-8859-1", "iso-8859-2", "koi8-r", "KOI8-R", "shift_jis",
         "sjis", "euc-jp", "windows-1251", "cp1251", "iso-8859-15", "gbk", "gb2312", "big5", "euc-kr", "macintosh",
         "windows-1250", "iso-8859-7", "greek", "ibm866", "windows-874", "gb18030", "iso-2022-jp", "koi8-u", "us-ascii"]
UTF16 = ["utf-16", "UTF-16", "utf-16le", "utf-16be", "UTF-16LE", "unicode", "ucs-2"]
INVALID = ["bogus", "utf8x", "utf-32", "none", "x-nope", "utf 8", "latin-99",
           # differ from a valid label only by something a careless normalisation would fold away
           "koi8-r\x0b", "utf-8\x1f", "windows-1252\x1c", "\x0bshift_jis", "Koi8-r\x0b", "iso-8859-2\x1d", ""]
# only usable as *_encoding arguments (not ASCII)
INVALID_ARG_ONLY = ["koi8-r\xa0", "\u212aoi8-r", "utf-8\u2003", "\u017fhift_jis"]
BOMS = {"utf-8": codecs.BOM_UTF8, "utf-16le": codecs.BOM_UTF16_LE, "utf-16be": codecs.BOM_UTF16_BE}

# ... plus every other label webencodings knows (about 200), except those of the UTF-16 family and the two encodings kept
# out of <meta> declarations; drawn with a lower weight than the hand-picked ones above
ALL_VALID = sorted(lab for lab, name in webencodings.LABELS.items()
                   if name not in ("utf-16le", "utf-16be", "x-user-defined", "replacement"))
for _l in VALID + UTF16:
    assert webencodings.lookup(_l) is not None, _l
for _l in UTF16:
    assert webencodings.lookup(_l).name in ("utf-16le", "utf-16be"), _l
for _l in INVALID + INVALID_ARG_ONLY:
    assert webencodings.lookup(_l) is None, _l
for _l in VALID:
    assert webencodings.lookup(_l).name not in ("utf-16le", "utf-16be", "x-user-defined", "replacement")

FORMS = {
    # name: (template, effective)
    "charset": ("<meta charset=%s>", True),
    "charset_q": ('<meta charset="%s">', True),
    "charset_sq_uc": ("<META CHARSET='%s'>", True),
    "charset_pad": ("<meta   charset = %s >", True),
    "charset_slash": ('<meta charset="%s"/>', True),
    "charset_extra": ("<meta name=x charset=%s>", True),
    "pragma": ('<meta http-equiv=content-type content="text/html; charset=%s">', True),
    "pragma_rev": ("<meta content='text/html;charset=%s' http-equiv=\"Content-Type\">", True),
    "pragma_q": ("<meta http-equiv='Content-Type' content=\"text/html; charset='%s'\">", True),
    "content_only": ('<meta content="text/html; charset=%s">', False),
    "name_content": ('<meta name=description content="charset=%s">', False),
    "refresh": ('<meta http-equiv=refresh content="0; charset=%s">', False),
    # content first: the prescan holds the encoding as "pending" until it sees
    # whether a content-type pragma follows
    "refresh_rev": ('<meta content="3; url=http://x.example/?q=1&charset=%s" http-equiv="refresh">', False),
    "content_then_name": ('<meta content="text/html; charset=%s" name=generator>', False),
    "content_then_other_equiv": ("<meta content='text/html; charset=%s' http-equiv=X-UA-Compatible>", False),
    "pragma_rev_uc": ('<META CONTENT="text/html; charset=%s" HTTP-EQUIV="CONTENT-TYPE">', True),
    # near misses of the pragma keyword: the standard wants an exact ASCII case-insensitive match of "Content-Type"
    "equiv_trailing_space": ('<meta http-equiv="Content-Type " content="text/html; charset=%s">', False),
    "equiv_leading_space": ("<meta http-equiv=' content-type' content='text/html; charset=%s'>", False),
    "equiv_trailing_newline": ('<meta content="text/html; charset=%s" http-equiv="Content-Type\n">', False),
    "equiv_nbsp": ('<meta http-equiv="content-type\x0b" content="text/html; charset=%s">', False),
    "equiv_underscore": ('<meta http-equiv=content_type content="text/html; charset=%s">', False),
    "equiv_semicolon": ('<meta http-equiv="Content-Type;" content="text/html; charset=%s">', False),
    "equiv_prefix": ('<meta http-equiv=content-typ content="text/html; charset=%s">', False),
    "charset_name_near_miss": ('<meta charsets=%s>', False),
    "charset_in_name": ('<meta name=charset content=%s>', False),
}
# ONE <meta> carrying both a charset attribute (label L1) and a Content-Type pragma (label L2, both valid and different).
# The HTML standard gives the charset attribute priority in tree construction ("If the element has a charset attribute
# ... Otherwise, if the element has an http-equiv attribute ...") and in the prescan (the charset attribute always sets
# charset; content only "if charset is still null").  html5lib's prescan returns at the first usable attribute, so with the
# pragma first its verdict is L2: that is prescan conformance (not decided here) and the prescan verdict is don't-care for
# that form; what tree construction does is decided in both orders.
DOUBLE_FORMS = {
    "both_charset_first": ('<meta charset=%s http-equiv=content-type content="text/html; charset=%s">', "L1"),
    "both_charset_first_q": ("<meta charset='%s' http-equiv=\"Content-Type\" content='text/html;charset=%s'>", "L1"),
    "both_pragma_first": ('<meta http-equiv=content-type content="text/html; charset=%s" charset=%s>', "dontcare"),
    "both_content_first": ('<meta content="text/html; charset=%s" charset="%s" http-equiv=Content-Type>', "dontcare"),
}
PLACES = {
    # name: (prefix, suffix, visibility)
    "plain": ("", "", "both"),
    "body": ("</head><body>", "", "both"),
    "comment": ("<!-- ", " -->", "nobody"),
    "title": ("<title>", "</title>", "prescan"),
    "script": ("<script>", "</script>", "prescan"),
    "style": ("<style>", "</style>", "prescan"),
    "attr": ('<link title="', '">', "nobody"),
    # one placement per insertion mode / tokenizer state in which the HTML standard says what happens to a <meta> start tag
    # (visibility below is what the standard prescribes, not what the code does)
    # <noscript>: with scripting off its content is markup ("in head noscript": a <meta> is processed using the rules for
    # "in head"; in body it is an ordinary element); with scripting ON (parse(..., scripting=True)) the content is RAWTEXT and
    # only the prescan, which knows nothing of either, sees the declaration
    "noscript_head": ("<head><noscript>", "</noscript>", "noscript"),
    "noscript_body": ("<body><p><noscript>", "</noscript>", "noscript"),
    "after_head": ("</head>", "", "both"),                              # after head: pushed back onto head
    "table": ("<table>", "</table>", "both"),                           # in table: foster parenting, in-body rules
    "table_cell": ("<table><tr><td>", "</td></tr></table>", "both"),    # in cell -> in body
    "caption": ("<table><caption>", "</caption></table>", "both"),
    "table_row": ("<table><tr>", "</tr></table>", "both"),              # in row -> in table -> in body
    "after_body": ("</body>", "", "both"),                              # after body: reprocessed in body
    "after_html": ("</html>", "", "both"),
    "svg": ("<svg>", "</svg>", "both"),                                 # <meta> breaks out of foreign content
    "math_mtext": ("<math><mtext>", "</mtext></math>", "both"),         # MathML text integration point
    "svg_desc": ("<svg><desc>", "</desc></svg>", "both"),               # HTML integration point
    "nested": ("<div><p><b><ul><li>", "</li></ul></b></p></div>", "both"),
    "form": ("<form>", "</form>", "both"),
    "button": ("<button>", "</button>", "both"),
    "template": ("<template>", "</template>", "both"),
    "select": ("<select>", "</select>", "prescan"),                     # in select: any other start tag is ignored
    "textarea": ("<textarea>", "</textarea>", "prescan"),               # RCDATA / RAWTEXT content
    "xmp": ("<xmp>", "</xmp>", "prescan"),
    "iframe": ("<iframe>", "</iframe>", "prescan"),
    "noframes": ("<noframes>", "</noframes>", "prescan"),
    "pi": ("<?php ", " ?>", "nobody"),                                  # bogus comment up to the first '>'
    "bang": ("<!x ", "", "nobody"),
    "endtag_attrs": ("</p ", "", "nobody"),                             # attributes of an end tag
    "attr_sq": ("<link title='", "'>", "nobody"),
}
FILLERS = [" ", "\n", "<!DOCTYPE html>", "<html>", "<head>", "<link rel=x>", "<!--XXXX-->", "yyy", "\r\n"]
# markup that depends on the decoder: ISO-2022 escape sequences are characters
# under every other encoding and vanish under ISO-2022-JP, so the abandoned
# first attempt and the second attempt of a restart see different markup
# (quirks vs no-quirks doctype, different tag names, ...)
ESC_FILLERS = ["<!DOCTYPE html\x1b(B>", "\x1b(B<!DOCTYPE html>", "<!DOCTYPE\x1b(B html>", "\x1b(B", "\x1b(J", "<html\x1b(B>", "<head\x1b(B>",
               "<!DOCTYPE html PUBLIC \"\x1b(B-//W3C//DTD HTML 4.01 Transitional//EN\">",
               # markup the first attempt sees and ISO-2022-JP swallows (two-byte mode); only elements after which a
               # <meta> start tag still reaches the in-head handler
               # (an EVEN number of bytes between the escapes: in two-byte mode an odd byte would pair up with the ESC that
               # is meant to end the mode, and the rest of the document would stay swallowed)
               "\x1b$B<form>\x1b(B", "\x1b$B<table >\x1b(B", "\x1b$B<b><i>\x1b(B", "\x1b$B<pre >\x1b(B", "\x1b$B<table><tr><td >\x1b(B",
               "\x1b$B<p >\x1b(B", "\x1b$B<a href=x>\x1b(B", "\x1b$B<body a=b>\x1b(B", "\x1b$B<html c=d>\x1b(B", "\x1b$B<nobr>\x1b(B"]
for _f in ESC_FILLERS:
    if "\x1b$B" in _f:
        assert len(_f[_f.index("\x1b$B") + 3:_f.index("\x1b(B", 3)]) % 2 == 0, _f
BODY_PIECES = [b"caf\xe9", b"\xc3\xa9t\xc3\xa9", b"\x82\xa0\x82\xa2", b"\xa4\xa2\xa4\xa4", b"\xe2\x82\xac", b"\xf0\x9f\x98\x80",
               b"<p>", b"<b>x</b>", b"\r\n", b"\r", b"\xd0\x96", b"\x80", b"\xff", b"\xa0", b"&amp;", b"plain text ",
               b"<table><tr><td>\xe9</table>", b"\x81", b"\xe3\x81\x82", b"\xc0\xaf", b"\xed\xa0\x80", b"<!--\xe9-->",
               b"<a title='\xfc'>", b"\x00", b"\x01", b"a\x00b\x00", b"\xfe\xff", b"<i>", b"</p>", b"\x8f\xa2\xb8", b"\x1b$B",
               # observers of state the abandoned first attempt may have left behind
               b"<p><table>", b"<p>q<table><tr><td>r</table>s", b"<form><form>x</form>", b"<b>bold<p>para", b"<frameset>", b"<table> </table>",
               b"<pre>\nx</pre>", b"<select><option>o", b"</body>z",
               # the scripting flag decides how these are tokenized
               b"<noscript><p>n</p></noscript>", b"<noscript><b>n", b"<noscript>\xe9<i></noscript>t"]


STATE_OBSERVER_PIECES = [b"<p><table>", b"<p>q<table><tr><td>r</table>s", b"<form><form>x</form>", b"<b>bold<p>para", b"<frameset>", b"<table> </table>",
                         b"<pre>\nx</pre>", b"<select><option>o", b"</body>z", b"<noscript><p>n</p></noscript>", b"<table>x<td>y", b"<a><table><a>"]

# --------------------------------------------------------------------------
# build

def build(case):
    """-> (payload bytes, bom_len, decl records).  A decl record is
    {start, end (offset of its '>'), label, effective, vis}."""
    bom = case.get("bom")
    # the markup itself is UTF-16: either announced by a BOM, or (case["wide"]) not announced at all - then only a caller
    # that passes a UTF-16 label as likely_encoding / default_encoding makes it readable
    wide_enc = bom if bom in ("utf-16le", "utf-16be") else case.get("wide")
    wide = wide_enc in ("utf-16le", "utf-16be")
    out = []
    pos = 0
    decls = []

    def emit_ascii(s):
        nonlocal pos
        b = s.encode(wide_enc) if wide else s.encode("ascii")
        out.append(b)
        pos += len(b)

    for part in case["parts"]:
        t = part["t"]
        if t == "fill":
            emit_ascii(part["s"])
        elif t == "pad":
            emit_ascii(part["c"] * part["n"] if part["c"] != "<!--" else "<!--" + "X" * max(0, part["n"] - 7) + "-->")
        elif t == "decl":
            pre, suf, vis = PLACES[part["place"]]
            if vis == "noscript":
                vis = "prescan" if case.get("scripting") else "both"
            emit_ascii(pre)
            start = pos
            if part["form"] in DOUBLE_FORMS:
                tpl, prescan_sees = DOUBLE_FORMS[part["form"]]
                l1, l2 = part["label"], part["label2"]
                emit_ascii(tpl % ((l1, l2) if prescan_sees == "L1" else (l2, l1)))
                end = pos - (2 if wide else 1)
                decls.append({"start": start, "end": end, "label": l1, "effective": True, "vis": vis,
                              "prescan_label": l1 if prescan_sees == "L1" else "dontcare"})
            else:
                tpl, effective = FORMS[part["form"]]
                shown = part["label"]
                rec = {"start": start, "label": part["label"], "effective": effective, "vis": vis}
                if part.get("charref") and shown and ("&" not in tpl):
                    # one character of the label written as a character reference: the tokenizer decodes it (tree
                    # construction sees the label), the prescan works on raw bytes (it sees something else)
                    k = shown.index("-") if "-" in shown else 0
                    shown = shown[:k] + "&#x%x;" % ord(shown[k]) + shown[k + 1:]
                    rec["prescan_label"] = shown
                emit_ascii(tpl % shown)
                rec["end"] = pos - (2 if wide else 1)
                decls.append(rec)
            emit_ascii(suf)
        elif t == "body":
            b = bytes.fromhex(part["hex"])
            out.append(b)
            pos += len(b)
    payload = b"".join(out)
    bom_len = 0
    if bom:
        bom_len = len(BOMS[bom])
        payload = BOMS[bom] + payload
        for d in decls:
            d["start"] += bom_len
            d["end"] += bom_len
    tail = case.get("torn", 0)
    if tail:
        payload = payload[:max(bom_len, len(payload) - tail)]
    return payload, bom_len, decls


def effective_bom(payload):
    """The BOM the *bytes* start with, intended by the generator or not (a
    body that happens to begin with FE FF is a UTF-16BE BOM: sniffing
    legitimately outranks everything else)."""
    for name in ("utf-8", "utf-16le", "utf-16be"):
        if payload.startswith(BOMS[name]):
            return name, len(BOMS[name])
    return None, 0


NO_TREE_META_CONTAINERS = ("title", "textarea", "style", "script", "xmp", "plaintext", "select")


def lookup_name(label):
    if label is None:
        return None
    e = webencodings.lookup(label)
    return None if e is None else e.name


def norm_meta(name):
    """A declared UTF-16 in <meta> means UTF-8."""
    if name in ("utf-16le", "utf-16be"):
        return "utf-8"
    return name


def ground_truth(case, payload_len, decls):
    """-> (encoding name or None if don't-care, rule name, detail dict)."""
    a = case["args"]
    info = {"competing": 0}
    bom = case.get("_effective_bom", case.get("bom"))
    present = [k for k in ("override", "transport", "parent", "likely", "default") if a.get(k) is not None]
    info["competing"] = len(present) + (1 if bom else 0) + (1 if decls else 0)
    if bom:
        return bom, "bom", info
    n = lookup_name(a.get("override"))
    if n:
        return n, "override", info
    n = lookup_name(a.get("transport"))
    if n:
        return n, "transport", info
    tentative = None
    rule = None
    unannounced_wide = case.get("wide") if case.get("wide") in ("utf-16le", "utf-16be") else None
    for d in decls:
        if unannounced_wide:
            break       # UTF-16 code units: the byte-level prescan finds no ASCII "<meta"
        if d["vis"] not in ("prescan", "both"):
            continue
        if d["start"] >= 1024:
            break
        if d["end"] < 964 and d["end"] < payload_len:
            plabel = d.get("prescan_label", d["label"])
            if plabel == "dontcare":
                return None, "dontcare-prescan-form", info
            if d["effective"] and lookup_name(plabel):
                tentative = norm_meta(lookup_name(plabel))
                rule = "prescan"
                break
            continue
        return None, "dontcare-straddle", info
    if tentative is None:
        n = lookup_name(a.get("parent"))
        if n and not n.startswith("utf-16"):
            tentative, rule = n, "parent"
    if tentative is None:
        n = lookup_name(a.get("likely"))
        if n:
            tentative, rule = n, "likely"
    if tentative is None:
        if "default" in a and a["default"] is not None:
            n = lookup_name(a["default"])
        else:
            n = "windows-1252"
        if n:
            tentative, rule = n, "default"
    if tentative is None:
        tentative, rule = "windows-1252", "fallback"
    if unannounced_wide and tentative != unannounced_wide:
        # every character of the markup is followed (or preceded) by a NUL under an ASCII-compatible decoder, and is CJK
        # noise under the other byte order: no tag is ever tokenized
        return tentative, rule + "+utf16-markup-unreadable", info
    if tentative in ("utf-16le", "utf-16be") and not unannounced_wide:
        # the ASCII bytes of the document do not decode to markup
        return tentative, rule + "+utf16-tentative-final", info
    if case.get("container") in NO_TREE_META_CONTAINERS:
        # fragment context in which no <meta> start tag reaches the in-head handler: the tokenizer starts in RCDATA /
        # RAWTEXT / PLAINTEXT with no matching end tag, or (select) the start tag is ignored
        return tentative, rule + "+fragment-context-hides-meta", info
    for d in decls:
        if d["vis"] != "both" or not d["effective"] or d["end"] >= payload_len:
            continue
        n = lookup_name(d["label"])
        if not n:
            continue
        n = norm_meta(n)
        if n == tentative:
            return n, rule + "+confirmed", info
        return n, rule + "+restart", info
    return tentative, rule + "+unconfirmed", info


# --------------------------------------------------------------------------
# generation

def _label(rng, kind=None):
    kind = kind or rng.choice(["valid", "valid", "valid", "utf16", "invalid"])
    if kind == "valid":
        if rng.random() < 0.3:
            lab = rng.choice(ALL_VALID)
            r = rng.random()
            return lab.upper() if r < 0.2 else (lab.title() if r < 0.3 else lab)
        return rng.choice(VALID)
    if kind == "utf16":
        return rng.choice(UTF16)
    return rng.choice(INVALID)


# labels that are only used as *_encoding ARGUMENTS: in a <meta> the HTML standard maps x-user-defined to windows-1252,
# which html5lib does not do and the property does not mention (don't-care there); named by the caller they must be
# selected and reported like any other label.  webencodings' stream reader for this encoding does not agree with its own
# one-shot decoder (a defect of that package), so the decoded-reference oracle O2 is skipped when it is the final encoding.
ARG_ONLY_VALID = ["x-user-defined", "X-User-Defined"]
O2_SKIP = {"x-user-defined", "replacement"}


def _arg(rng, p_present):
    if rng.random() >= p_present:
        return None
    r = rng.random()
    if r < 0.08:
        return rng.choice(INVALID_ARG_ONLY)
    if r < 0.14:
        return rng.choice(ARG_ONLY_VALID)
    return _label(rng)


def _fill(rng, parts, n_items):
    for _ in range(n_items):
        parts.append({"t": "fill", "s": rng.choice(FILLERS)})


def _pad_to(rng, parts, case, target):
    """Add padding so that the next part starts near byte offset `target`."""
    payload, _bl, _d = build(dict(case, parts=parts, torn=0))
    cur = len(payload)
    wide = case.get("bom") in ("utf-16le", "utf-16be") or case.get("wide") in ("utf-16le", "utf-16be")
    need = target - cur
    if wide:
        need //= 2
    if need <= 0:
        return
    c = rng.choice([" ", "<!--", "y", "\n"])
    if c == "<!--" and need < 8:
        c = " "
    parts.append({"t": "pad", "c": c, "n": need})


def _mb_samples():
    out = {}
    for enc, text in (("shift_jis", "\u3042\u3044"), ("euc-jp", "\u3042\u3044"), ("gbk", "\u4f60\u597d"), ("big5", "\u4f60\u597d"),
                      ("euc-kr", "\uac00\ub098"), ("gb18030", "\u4f60\u1234"), ("iso-2022-jp", "\u3042\u3044"),
                      ("utf-8", "\u3042\U0001f600"), ("windows-1252", "\xe9\xe8")):
        out[enc] = webencodings.lookup(enc).codec_info.encode(text, "strict")[0]
    return out


CJK = _mb_samples()


def gen_boundary_doc(rng):
    """A document in a multi-byte encoding with a CR LF pair (or a multi-byte
    character) straddling a decoder read boundary of the shipped chunk size
    (bytes k*10240-1 / k*10240)."""
    enc = rng.choice(sorted(CJK))
    case = {"prop": PROP, "bom": None, "torn": 0,
            "args": {"override": None, "transport": None, "parent": None, "likely": None, "default": None}}
    how = rng.choice(["meta", "meta", "override", "transport", "likely", "latemeta"])
    parts = [{"t": "fill", "s": "<!DOCTYPE html>"}]
    if how == "meta":
        parts.append({"t": "decl", "form": "charset", "place": "plain", "label": enc})
    elif how == "latemeta":
        parts.append({"t": "pad", "c": "<!--", "n": rng.randint(1030, 1200)})
        parts.append({"t": "decl", "form": "charset", "place": "plain", "label": enc})
    else:
        case["args"][how] = enc
    parts.append({"t": "fill", "s": "<pre>"})
    mb = CJK[enc]
    target = rng.choice([10240, 10240, 20480]) + rng.choice([-1, -1, -1, 0, -2, 1])
    payload, _bl, _d = build(dict(case, parts=parts))
    head = mb * rng.randint(1, 3)
    need = target - len(payload) - len(head)
    filler = rng.choice([b"a", b"ab ", b"q\n", mb])
    body = head + filler * max(0, need // len(filler))
    body += b"z" * max(0, target - len(payload) - len(body))
    body += rng.choice([b"\r\n", b"\r\n", b"\r\r\n", b"\r", mb, b"\r\n" + mb]) + b"tail</pre><p>" + mb + b"\r\nend"
    parts.append({"t": "body", "hex": body.hex()})
    case["parts"] = parts
    return case


def gen_doc(rng):
    if rng.random() < 0.06:
        return gen_boundary_doc(rng)
    case = {"prop": PROP, "bom": None, "torn": 0}
    r = rng.random()
    if r < 0.1:
        case["bom"] = "utf-8"
    elif r < 0.2:
        case["bom"] = rng.choice(["utf-16le", "utf-16be"])
    args = {}
    swarm = rng.random()
    p = 0.0 if swarm < 0.25 else (0.5 if swarm < 0.5 else 0.25)
    p_certain = p * rng.choice([0.0, 0.3, 1.0])
    args["override"] = _arg(rng, p_certain)
    args["transport"] = _arg(rng, p_certain)
    args["parent"] = _arg(rng, p)
    args["likely"] = _arg(rng, p)
    args["default"] = _arg(rng, p)
    if case["bom"] is None and rng.random() < 0.05:
        # UTF-16 markup without a BOM; usually with a caller who says so through likely_encoding / default_encoding
        case["wide"] = rng.choice(["utf-16le", "utf-16be"])
        args["override"] = args["transport"] = None if rng.random() < 0.85 else args["override"]
        r2 = rng.random()
        if r2 < 0.75:
            same = {"utf-16le": ["utf-16le", "UTF-16LE", "utf-16", "unicode", "ucs-2"], "utf-16be": ["utf-16be", "UTF-16BE"]}[case["wide"]]
            other = {"utf-16le": ["utf-16be"], "utf-16be": ["utf-16le", "utf-16"]}[case["wide"]]
            lab = rng.choice(same) if r2 < 0.6 else rng.choice(other)
            which = rng.choice(["likely", "default", "likely"])
            args[which] = lab
            if which == "default" and rng.random() < 0.7:
                args["likely"] = None
            if rng.random() < 0.7:
                args["parent"] = None
    case["args"] = args
    case["bytes_args"] = sorted(k for k in args if args[k] is not None and rng.random() < 0.2)
    parts = []
    esc_doc = rng.random() < 0.1
    if esc_doc:
        for _ in range(rng.randint(1, 3)):
            parts.append({"t": "fill", "s": rng.choice(ESC_FILLERS)})
    _fill(rng, parts, rng.randint(0, 4))
    n_decl = rng.choice([0, 1, 1, 1, 2, 2, 3])
    # decoder-dependent markup only matters when the two attempts of a restart decode differently: most of these documents get
    # their (first) declaration beyond the prescan window, so that the first attempt runs under the tentative encoding
    esc_restart = esc_doc and rng.random() < 0.6
    if esc_restart:
        n_decl = max(1, n_decl)
    for di in range(n_decl):
        zone = rng.random()
        if esc_restart and di == 0:
            zone = 0.7 + 0.28 * rng.random()
        if zone < 0.4:
            pass
        elif zone < 0.55:
            # anywhere inside the prescan window
            _pad_to(rng, parts, case, rng.randint(60, 940))
        elif zone < 0.7:
            _pad_to(rng, parts, case, rng.randint(940, 1023))
        elif zone < 0.9:
            _pad_to(rng, parts, case, rng.randint(1100, 3000))
        elif zone < 0.98 or di > 0:
            _pad_to(rng, parts, case, rng.randint(10200, 10400))
        else:
            # far into a big document: whatever is kept for the rewind of a restart (replay buffer, decoder state, position
            # bookkeeping) has grown past 2^16, 2^17 or 2^18 bytes by then
            far = rng.random()
            _pad_to(rng, parts, case, rng.randint(66000, 90000) if far < 0.7 else (rng.randint(131500, 140000) if far < 0.9
                                                                                   else rng.randint(262500, 270000)))
        form = rng.choice(list(FORMS)) if rng.random() < 0.8 else rng.choice(["charset", "pragma"])
        place = rng.choice(["plain", "plain", "plain", "body", "comment", "title", "script", "style", "attr"])
        if rng.random() < 0.35:
            place = rng.choice(sorted(PLACES))
        if place == "attr" and '"' in FORMS[form][0]:
            form = rng.choice(["charset", "charset_sq_uc", "charset_pad", "charset_extra"])
        if place in ("attr_sq", "pi", "bang", "endtag_attrs"):
            # forms without the characters that would end the enclosing construct early
            form = rng.choice(["charset", "charset_pad", "charset_extra"]) if place != "attr_sq" else \
                rng.choice(["charset", "charset_q", "charset_pad", "charset_extra", "pragma"])
        if esc_restart and di == 0 and rng.random() < 0.7:
            form = rng.choice(["charset", "pragma", "charset_q", "pragma_rev"])
            place = rng.choice(["plain", "plain", "body", "after_head", "nested"])
        label = _label(rng)
        if esc_doc and (rng.random() < 0.7 or (esc_restart and di == 0)):
            label = rng.choice(["iso-2022-jp", "csiso2022jp", "ISO-2022-JP"])
        if rng.random() < 0.1 and place not in ("attr", "attr_sq", "pi", "bang", "endtag_attrs"):
            l1 = _label(rng, "valid")
            l2 = _label(rng, "valid")
            if lookup_name(l1) != lookup_name(l2):
                parts.append({"t": "decl", "form": rng.choice(sorted(DOUBLE_FORMS)), "place": place, "label": l1, "label2": l2})
                _fill(rng, parts, rng.randint(0, 3))
                continue
        part = {"t": "decl", "form": form, "place": place, "label": label}
        if rng.random() < 0.06 and form in ("charset_q", "charset_sq_uc", "charset_slash", "pragma", "pragma_rev", "pragma_rev_uc") \
                and place not in ("attr", "attr_sq", "pi", "bang", "endtag_attrs"):
            part["charref"] = True      # only in quoted attribute values
        parts.append(part)
        _fill(rng, parts, rng.randint(0, 3))
    body = b"".join(rng.choice(BODY_PIECES) for _ in range(rng.randint(1, 12)))
    if esc_restart and rng.random() < 0.8:
        # ... followed by observers of what the abandoned first attempt may have left behind
        body = b"".join(rng.choice(STATE_OBSERVER_PIECES) for _ in range(rng.randint(1, 3))) + body
    if rng.random() < 0.1:
        body = body * rng.randint(20, 400)
    parts.append({"t": "body", "hex": body.hex()})
    case["parts"] = parts
    if rng.random() < 0.15:
        case["torn"] = rng.randint(1, 3)
    has_noscript = b"<noscript" in body or any(p.get("place", "").startswith("noscript") for p in parts)
    if rng.random() < (0.6 if has_noscript else 0.1):
        case["scripting"] = True        # a per-call option that must survive the restart like every other
    if rng.random() < 0.12:
        # fragment parsing goes through the same sniffing and restart; only
        # contexts in which a <meta> start tag reaches the in-head handler
        case["container"] = rng.choice(["div", "body", "head", "td", "p", "html", "table", "tr", "title", "textarea", "style",
                                        "script", "xmp", "plaintext", "select"])
    return case


def sniff_schedule(rng, n):
    """Read schedule with cuts biased into the BOM bytes and the 1024 window."""
    cuts = set()
    for off in (1, 2, 3, 4):
        if rng.random() < 0.5:
            cuts.add(off)
    for _ in range(rng.randint(0, 4)):
        cuts.add(rng.randint(1000, 1030))
    for _ in range(rng.randint(0, 6)):
        cuts.add(rng.randint(1, max(1, n)))
    cuts = sorted(c for c in cuts if 0 < c < n)
    reads, prev = [], 0
    for c in cuts:
        reads.append(c - prev)
        prev = c
    return {"reads": reads, "rest": rng.choice([1, 3, 1 << 30, 1 << 30, 100])}, "sniffcuts"


def gen_unit(rng, stream="main"):
    doc = gen_doc(rng)
    payload, _bl, _decls = build(doc)
    cases = []
    for _ in range(rng.randint(4, 7)):
        kind = rng.choice(["bytes", "bytesio", "simbytes_seek", "simbytes_seek", "simbytes_noseek", "simbytes_noseek",
                           "simbytes_seekraises", "http_plain", "http_chunked", "http_addinfourl"])
        case = dict(doc)
        case["kind"] = kind
        case["chunk"] = rng.choice([10240, 10240, 10240, 1, 2, 3, 5, 16, 64, 1000, 1024, 1025])
        if kind in sources.SIM_KINDS:
            if rng.random() < 0.6:
                case["src"], case["strategy"] = sniff_schedule(rng, len(payload))
            else:
                case["src"], case["strategy"] = c05.make_schedule(rng, payload)
        else:
            case["src"], case["strategy"] = {"reads": [], "rest": 1 << 30}, "native"
        cases.append(case)
    return cases


# --------------------------------------------------------------------------
# execution

_builder = [None]
_cache = {}


def block_start():
    """Defined process-wide state at the start of every block of units and of
    every replay (see sim/coldstate.py)."""
    from . import coldstate
    coldstate.restore()
    _cache.clear()


def _tb():
    if _builder[0] is None:
        _builder[0] = treebuilders.getTreeBuilder("etree", fullTree=True)
    return _builder[0]


def kwargs_of(case):
    a = case["args"]
    kw = {}
    names = {"override": "override_encoding", "transport": "transport_encoding", "parent": "same_origin_parent_encoding",
             "likely": "likely_encoding", "default": "default_encoding"}
    as_bytes = case.get("bytes_args") or []
    for k, name in names.items():
        if a.get(k) is not None:
            v = a[k]
            if k in as_bytes:
                try:
                    v = v.encode("ascii")      # callers may pass labels as bytes (e.g. straight from an HTTP header)
                except UnicodeEncodeError:
                    pass
            kw[name] = v
    return kw


def _parse(source, chunk, kwargs, log=None, container=None, scripting=False):
    parser = html5lib.HTMLParser(tree=_tb())
    if scripting:
        kwargs = dict(kwargs, scripting=True)

    def state():
        tok = parser.__dict__.get("tokenizer")
        return "sniff" if tok is None else tok.state.__name__
    probes.set_state_fn(state)
    if log is not None:
        log.state_fn = state
    U = _inputstream.HTMLUnicodeInputStream
    saved = U._defaultChunkSize
    U._defaultChunkSize = chunk
    try:
        try:
            if container:
                tree = parser.parseFragment(source, container=container, **kwargs)
            else:
                tree = parser.parse(source, **kwargs)
        except SimBudgetExceeded as e:
            return ("budget", str(e))
        except RecursionError:
            return ("raise", "RecursionError", "")
        except Exception as e:
            return ("raise", type(e).__name__, str(e)[:200])
        stream = parser.tokenizer.stream
        return ("ok", canon_etree(tree), parser.errors, stream.charEncoding[0].name, stream.charEncoding[1])
    finally:
        U._defaultChunkSize = saved
        probes.set_state_fn(None)


def decode_ref(raw, enc, final=True):
    ci = webencodings.lookup(enc).codec_info
    if final:
        return ci.decode(raw, "replace")[0]
    dec = ci.incrementaldecoder("replace")
    return dec.decode(raw, False)


def references(case, payload, bom_len):
    cont = case.get("container")
    scr = bool(case.get("scripting"))
    key = (payload, tuple(sorted(kwargs_of(case).items())), cont, scr)
    hit = _cache.get("k")
    if hit is not None and hit[0] == key:
        return hit[1]
    ref = _parse(payload, 10240, kwargs_of(case), None, cont, scr)
    dec = dec_nf = None
    if ref[0] == "ok":
        raw = payload[bom_len:]
        text = decode_ref(raw, ref[3], True)
        dec = _parse(text, 10240, {}, None, cont, scr)
        text_nf = decode_ref(raw, ref[3], False)
        if text_nf != text:
            dec_nf = _parse(text_nf, 10240, {}, None, cont, scr)
    val = (ref, dec, dec_nf)
    _cache["k"] = (key, val)
    return val


def _errs_equal_or_f2(a, b):
    """-> 'eq' | 'F2' | 'diff'"""
    ea, eb = canon_errors(a), canon_errors(b)
    if ea == eb:
        return "eq"
    if (canon_errors(c05.strip_stream_errors(a)) == canon_errors(c05.strip_stream_errors(b)) and
            c05.n_stream_errors(a) == c05.n_stream_errors(b) and c05.n_stream_errors(a) > 0):
        return "F2"
    return "diff"


def execute(case):
    probes.install()
    probes.reset()
    payload, bom_len, decls = build(case)
    ebom, bom_len = effective_bom(payload)
    case = dict(case, _effective_bom=ebom)
    kwargs = kwargs_of(case)
    stats = {"faults": {}, "probes": {}, "steps": 0, "reach": [], "nontrivial": False, "fault_free": False}
    res = {"ok": True, "oracle": None, "detail": "", "known": None, "stats": stats}
    ref, dec, dec_nf = references(case, payload, bom_len)
    probes.reset()
    probes.set_budget(len(payload))
    log = ReadLog(len(payload))
    src = make_source(case["kind"], payload, case["src"], log)
    try:
        out = _parse(src, case["chunk"], kwargs, log, case.get("container"), bool(case.get("scripting")))
    finally:
        probes.set_budget(None)
    truth, rule, info = ground_truth(case, len(payload), decls)

    # ---- reach / faults / probes
    P = probes.PROBES
    f = stats["faults"]
    if log.short_reads:
        f["short_read"] = log.short_reads
    kind = case["kind"]
    if kind in ("simbytes_noseek", "http_plain", "http_chunked", "http_addinfourl"):
        f["no_seek"] = 1
    if kind == "simbytes_seekraises":
        f["seek_raises"] = 1
    sniff_short = sum(1 for e in log.events if e[1] == "read" and e[5] == "sniff" and 0 < e[3] < e[2] and e[4] < len(payload))
    if sniff_short:
        f["short_read_in_sniff_window"] = sniff_short
        P["prescan_window_short_read"] += 1
    if bom_len and any(b < bom_len for b in log.boundaries):
        f["split_bom"] = 1
        P["bom_split_across_reads"] += 1
    if case.get("torn"):
        f["torn_tail"] = 1
        if dec_nf is not None:
            P["torn_tail_mid_sequence"] += 1
    for d in decls:
        if d["start"] < 1024 <= d["end"]:
            P["decl_straddles_1024"] += 1
        if lookup_name(d["label"]) in ("utf-16le", "utf-16be"):
            P["utf16_label_in_meta"] += 1
        if d["vis"] == "prescan":
            P["prescan_only_decl"] += 1
    if P.get("changeEncoding_called") and not P.get("restart_fired") and out[0] == "ok" and out[4] == "certain":
        P["tentative_confirmed_without_restart"] += 1
    if truth is None:
        P["ground_truth_dontcare"] += 1
    stats["probes"] = dict(P)
    stats["steps"] = len(log.events) + P.get("readChunk", 0)
    stats["reach"] = ["%s|%s|%s|%s" % (rule, info["competing"], kind, bool(P.get("restart_fired")))]
    stats["nontrivial"] = bool(sniff_short or P.get("bufferedstream_replay") or P.get("restart_fired") or bom_len or
                               info["competing"] >= 2)
    stats["fault_free"] = not f
    res["digest"] = env.digest((log.events, out[0], out[1:] if out[0] != "ok" else (out[1], canon_errors(out[2]), out[3], out[4])))

    # ---- oracles
    if out[0] == "budget":
        if ref[0] == "budget":
            return res
        return _fail(res, "liveness", "read budget exceeded: %s" % out[1])
    if ref[0] == "raise" or out[0] == "raise":
        # the reference delivery itself raising is checked by O2/O3 below only
        # when both agree; disagreement is a delivery dependence
        if ref[0] == out[0] and ref[1] == out[1]:
            # the library raises for these bytes however they are delivered: that is
            # a totality question (C03), not one of encoding precedence or delivery
            stats["probes"]["both_raise"] = stats["probes"].get("both_raise", 0) + 1
            return res
        return _fail(res, "O1-exception", "bytes delivery %s, this delivery %s" % (brief(ref[:3]), brief(out[:3])))
    # O1
    if out[3] != ref[3]:
        return _fail(res, "O1-encoding", "documentEncoding %r here, %r for the plain bytes delivery" % (out[3], ref[3]))
    if out[1] != ref[1]:
        return _fail(res, "O1-tree", "tree differs from plain bytes delivery " + first_diff(ref[1], out[1]))
    eq = _errs_equal_or_f2(ref[2], out[2])
    if eq == "diff":
        return _fail(res, "O1-errors", "errors differ from plain bytes delivery " + first_diff(canon_errors(ref[2]), canon_errors(out[2])))
    known = "F2" if eq == "F2" else None
    known_detail = "stream-level invalid-codepoint positions differ between deliveries" if known else ""
    known_oracle = "O1-errors"
    # O3
    if truth is not None and out[3] != truth:
        return _fail(res, "O3-precedence", "documentEncoding %r, precedence model says %r (rule %s)" % (out[3], truth, rule))
    # O4 (only where O3 has no opinion because a declaration straddles the end of the prescan window): "the WHATWG prescan of
    # the first 1024 bytes" - if no declaration that tree construction can see ends at or after byte 1024, then nothing beyond
    # byte 1024 may influence the verdict: the same arguments with the document cut off after 1024 bytes give the same encoding
    if truth is None and rule == "dontcare-straddle" and len(payload) > 1024 and not case.get("bom") and not ebom:
        later_tree_visible = any(d["vis"] == "both" and d["effective"] and d["end"] >= 1024 and lookup_name(d["label"]) for d in decls)
        if not later_tree_visible:
            cut = _parse(payload[:1024], 10240, kwargs, None, case.get("container"), bool(case.get("scripting")))
            stats["probes"]["straddle_checked_against_first_1024_bytes"] = stats["probes"].get("straddle_checked_against_first_1024_bytes", 0) + 1
            if cut[0] == "ok" and cut[3] != out[3]:
                return _fail(res, "O4-window", "documentEncoding %r, but %r for the first 1024 bytes of the same document alone: bytes "
                             "beyond the prescan window decided (no declaration visible to tree construction ends there)" % (out[3], cut[3]))
    # O2
    if dec is not None and out[3] not in O2_SKIP:
        if dec[0] != "ok":
            return _fail(res, "O2-restart", "decoded reference %s" % brief(dec[:3]))
        ok_tree = out[1] == dec[1]
        eq2 = _errs_equal_or_f2(dec[2], out[2]) if ok_tree else "diff"
        if not ok_tree or eq2 == "diff":
            # F5 signature: holds against the decoding without the final flush
            if dec_nf is not None and dec_nf[0] == "ok" and out[1] == dec_nf[1] and \
                    _errs_equal_or_f2(dec_nf[2], out[2]) != "diff":
                res["ok"] = False
                res["oracle"] = "O2-restart"
                res["known"] = "F5"
                res["detail"] = "trailing incomplete multi-byte sequence dropped instead of decoding to U+FFFD"
                return res
            what = ("tree " + first_diff(dec[1], out[1])) if not ok_tree else \
                ("errors " + first_diff(canon_errors(dec[2]), canon_errors(out[2])))
            return _fail(res, "O2-restart", "result is not the parse of the bytes decoded as %s: %s" % (out[3], what))
        if eq2 == "F2" and not known:
            known, known_oracle = "F2", "O2-errors"
            known_detail = "stream-level invalid-codepoint positions differ from the decoded-str parse"
    if known:
        res["ok"] = False
        res["oracle"] = known_oracle
        res["known"] = known
        res["detail"] = known_detail
    return res


def _fail(res, oracle, detail):
    res["ok"] = False
    res["oracle"] = oracle
    res["detail"] = detail
    return res


# --------------------------------------------------------------------------
# minimisation

def shrinks(case):
    parts = case["parts"]
    n = len(parts)
    size = n // 2
    while size >= 1:
        for i in range(0, n, size):
            cand = parts[:i] + parts[i + size:]
            if cand != parts:
                yield dict(case, parts=cand)
        size //= 2
    for i, p in enumerate(parts):
        if p["t"] == "pad" and p["n"] > 1:
            for n2 in (p["n"] // 2, p["n"] - 1):
                yield dict(case, parts=parts[:i] + [dict(p, n=n2)] + parts[i + 1:])
            if p["c"] != " ":
                yield dict(case, parts=parts[:i] + [dict(p, c=" ")] + parts[i + 1:])
        if p["t"] == "body":
            b = bytes.fromhex(p["hex"])
            if len(b) > 1:
                for nb in (b[:len(b) // 2], b[len(b) // 2:], b[:-1], b[1:]):
                    yield dict(case, parts=parts[:i] + [dict(p, hex=nb.hex())] + parts[i + 1:])
        if p["t"] == "decl" and p["form"] in DOUBLE_FORMS:
            if p["place"] != "plain":
                yield dict(case, parts=parts[:i] + [dict(p, place="plain")] + parts[i + 1:])
        elif p["t"] == "decl":
            if p["form"] != "charset":
                yield dict(case, parts=parts[:i] + [dict(p, form="charset")] + parts[i + 1:])
            if p["place"] != "plain":
                yield dict(case, parts=parts[:i] + [dict(p, place="plain")] + parts[i + 1:])
    a = case["args"]
    for k in list(a):
        if a[k] is not None:
            yield dict(case, args=dict(a, **{k: None}))
    if case.get("bytes_args"):
        yield dict(case, bytes_args=[])
    if case.get("torn"):
        yield dict(case, torn=0)
    if case.get("container"):
        yield dict(case, container=None)
    if case.get("scripting"):
        yield dict(case, scripting=False)
    if case.get("wide"):
        yield dict(case, wide=None)
    if case.get("bom"):
        yield dict(case, bom=None)
    src = case["src"]
    reads = src.get("reads") or []
    if reads:
        yield dict(case, src=dict(src, reads=[]))
        yield dict(case, src=dict(src, reads=reads[:len(reads) // 2]))
        for i in range(len(reads) - 1):
            yield dict(case, src=dict(src, reads=reads[:i] + [reads[i] + reads[i + 1]] + reads[i + 2:]))
    if src.get("rest", 1) < (1 << 30):
        yield dict(case, src=dict(src, rest=1 << 30))
    if case["chunk"] != 10240:
        yield dict(case, chunk=10240)
    simpler = {"http_addinfourl": "http_plain", "http_chunked": "simbytes_noseek", "http_plain": "simbytes_noseek", "simbytes_seekraises": "simbytes_noseek",
               "simbytes_noseek": "simbytes_seek", "simbytes_seek": "bytesio", "bytesio": "bytes"}
    if case["kind"] in simpler:
        yield dict(case, kind=simpler[case["kind"]])


def describe(case):
    payload, bom_len, decls = build(case)
    ebom, bom_len = effective_bom(payload)
    truth, rule, _info = ground_truth(dict(case, _effective_bom=ebom), len(payload), decls)
    shown = payload if len(payload) <= 300 else payload[:300] + b"...(%d bytes)" % len(payload)
    return {"bytes": repr(shown), "args": {k: v for k, v in case["args"].items() if v is not None}, "bom": case.get("bom"),
            "bytes_args": case.get("bytes_args"), "decls": decls, "ground_truth": truth, "rule": rule, "kind": case["kind"], "chunk": case["chunk"],
            "src": c05._short_src(case["src"]), "torn": case.get("torn", 0), "fragment_container": case.get("container"), "scripting": bool(case.get("scripting")), "utf16_markup_without_bom": case.get("wide")}


def plan(tier):
    if tier == "thorough":
        return [("main", 300000)], 1200
    return [("main", 9000)], 240


RULE = ("one run = one delivery (source kind x read schedule x chunk size) of one constructed byte document "
        "(BOM? fillers, <meta> declarations of known form/label/visibility/offset, non-ASCII body, optional torn tail) with "
        "a value assignment of the five *_encoding arguments, checked against O1 plain-bytes delivery, O2 parse of the bytes "
        "decoded with the reported encoding, O3 precedence ground truth computed from the generator's own record; "
        "non-trivial = short read inside the sniffing window, or replay buffer used, or restart fired, or BOM present, or "
        ">=2 competing sources of encoding; distinct = distinct SHA-1 of the explicit case")
EXPECTED_PROBES = ["restart_fired", "restart_served_from_replay_buffer", "restart_after_multi_chunk",
                   "tentative_confirmed_without_restart", "prescan_window_short_read", "decl_straddles_1024",
                   "utf16_label_in_meta", "prescan_only_decl", "torn_tail_mid_sequence", "bom_split_across_reads",
                   "bufferedstream_replay"]
REACH_NOTE = "distinct (winning precedence rule + outcome, number of competing sources, source kind, restart yes/no) tuples"
REAL_VS_STUB = {
    "real": ["html5lib HTMLBinaryInputStream (BOM sniffing, prescan, changeEncoding/restart), BufferedStream, tokenizer, "
             "tree construction (repository working tree)", "CPython/webencodings decoders", "http.client.HTTPResponse"],
    "stub": ["SimBytes reader objects, fake socket", "ground-truth precedence model (40 lines) over the generator's record"],
}
ASSUMPTIONS = [
    "scoped claim: conformance of the prescan mini-parser on arbitrary/malformed byte strings and label resolution are NOT "
    "decided here (pure functions of the bytes); O3 is defined only for constructed documents and is don't-care when a "
    "declaration straddles bytes 964..1100",
    "sampling, not proof",
    "decode reference = webencodings codec one-shot decode with errors='replace'",
]
