"""Generic "process restarted, only the code survives" for html5lib.

Right after html5lib has been imported (and before any operation runs) the
process-wide state the library owns is recorded at two levels:

  NAMESPACES (which name is bound to which object)
    * the globals of every html5lib module,
    * the attributes of every class defined in html5lib,
    * the attribute dictionaries of every function / method defined in
      html5lib (memos kept "on the function"),
    * the attribute dictionaries of module-level and class-level instances of
      library classes and of container subclasses (e.g. the MethodDispatcher
      tables, the entities trie);
  CONTENTS (what a mutable container holds)
    * every dict / list / set / bytearray / deque reachable as a module global,
      class attribute, closure cell, default argument or attribute of one of
      the instances above.

restore() puts all of it back *in place*: names that were added are removed,
names that were rebound point to their import-time objects again, containers
get their import-time contents.  Because this is derived from the modules
rather than from a list of known caches, state added anywhere by a change to
the library is reset as well - which is what makes failures it causes
reproducible from a defined state.  restore() also reports what it had to
undo; the thread scheduler uses that to learn which code touches shared state.
"""
from __future__ import annotations

import collections
import os
import re
import sys
import types

_MUTABLE = (dict, list, set, bytearray, collections.deque)
_SCALARS = (type, types.ModuleType, types.FunctionType, types.BuiltinFunctionType, types.MethodType, str, bytes, int, float,
            complex, tuple, frozenset, bool, type(None), property, staticmethod, classmethod)
_snap = {"taken": False, "containers": [], "namespaces": [], "clearers": []}
_learned = {"codes": set(), "names": set()}
_MISSING = object()


# modules of the packages html5lib builds on: state parked there at run time (an attribute set on a minidom class, an entry
# in webencodings' lookup cache ...) is process-wide state of the library's making just as well
DEP_MODULES = ("xml.dom", "xml.dom.minidom", "xml.dom.minicompat", "xml.etree.ElementTree", "webencodings", "webencodings.labels",
               "webencodings.custom")


def _is_lib_module(name):
    if name in DEP_MODULES:
        return True
    return (name == "html5lib" or name.startswith("html5lib.")) and ".tests" not in name


def _owned(modname):
    """Does a function / class defined in module `modname` belong to the code whose state is tracked?"""
    return modname.startswith("html5lib") or modname in DEP_MODULES


def _copy(obj):
    if isinstance(obj, dict):
        return dict(obj)
    if isinstance(obj, list):
        return list(obj)
    if isinstance(obj, set):
        return set(obj)
    if isinstance(obj, collections.deque):
        return list(obj)
    return bytearray(obj)


# interpreter-wide settings a library might change (and forget to put back): part of "the process" just as well
_INTERP = [
    ("sys.int_max_str_digits", lambda: sys.get_int_max_str_digits(), lambda v: sys.set_int_max_str_digits(v)),
    ("sys.recursionlimit", lambda: sys.getrecursionlimit(), lambda v: sys.setrecursionlimit(v)),
    ("sys.switchinterval", lambda: sys.getswitchinterval(), lambda v: sys.setswitchinterval(v)),
]


def interp_state():
    """Cheap fingerprint of interpreter-wide settings and registries (used by the thread scheduler to notice that a thread
    is parked while it has one of them changed)."""
    import gc
    import warnings
    return (sys.get_int_max_str_digits(), sys.getrecursionlimit(), sys.getswitchinterval(), len(warnings.filters), len(os.environ),
            id(sys.stdout), id(sys.stderr), id(sys.excepthook), len(sys.path), len(sys.meta_path), len(sys.path_hooks), gc.isenabled())


def snapshot():
    if _snap["taken"]:
        return
    _snap["interp"] = [(name, get(), setter) for name, get, setter in _INTERP]
    seen = set()
    containers = []      # (container object, copy of its contents)
    namespaces = []      # (kind, owner, saved {name: object}, label)
    clearers = []

    def add_container(obj):
        if isinstance(obj, _MUTABLE) and id(obj) not in seen:
            seen.add(id(obj))
            containers.append((obj, _copy(obj)))
            d = getattr(obj, "__dict__", None)
            if isinstance(d, dict):
                add_namespace("instance", obj, d, type(obj).__name__)

    def add_namespace(kind, owner, d, label):
        key = ("ns", id(owner))
        if key in seen:
            return
        seen.add(key)
        namespaces.append((kind, owner, dict(d), label))
        for v in list(d.values()):
            add_container(v)

    def add_function(f, label):
        add_namespace("function", f, f.__dict__, label)
        for cell in (f.__closure__ or ()):
            try:
                add_container(cell.cell_contents)
            except ValueError:
                pass
        for dflt in list(f.__defaults__ or ()) + list((f.__kwdefaults__ or {}).values()):
            add_container(dflt)
        if hasattr(f, "cache_clear"):
            clearers.append(f.cache_clear)

    def add_value(v, label):
        """A value bound at module or class level."""
        add_container(v)
        try:
            f = getattr(v, "__func__", v)
        except Exception:       # objects with a __getattr__ of their own (lazy module proxies ...)
            return
        if isinstance(f, types.FunctionType):
            if _owned(getattr(f, "__module__", "") or ""):
                add_function(f, label)
            return
        if isinstance(v, property):
            for g in (v.fget, v.fset, v.fdel):
                if isinstance(g, types.FunctionType) and _owned(getattr(g, "__module__", "") or ""):
                    add_function(g, label)
            return
        if hasattr(v, "cache_clear") and callable(getattr(v, "cache_clear", None)):
            clearers.append(v.cache_clear)
        if not isinstance(v, _SCALARS + _MUTABLE) and isinstance(getattr(v, "__dict__", None), dict):
            # an instance bound at module or class level - of one of the library's classes or of any other (a ChainMap, a
            # StringIO, a partial ...): its attributes, and the containers they hold one level down
            add_namespace("instance", v, vars(v), label)
            for av in list(vars(v).values()):
                if isinstance(av, (list, tuple)):
                    for e in av:
                        add_container(e)

    for mname, mod in list(sys.modules.items()):
        if mod is None or not _is_lib_module(mname):
            continue
        add_namespace("module", mod, {k: v for k, v in vars(mod).items() if not k.startswith("__")}, mname)
        for name, v in list(vars(mod).items()):
            if name.startswith("__"):
                continue
            if isinstance(v, type):
                if getattr(v, "__module__", "") == mname:
                    add_namespace("class", v, {k: av for k, av in vars(v).items() if not k.startswith("__")},
                                  mname + "." + v.__qualname__)
                    for a, av in list(vars(v).items()):
                        if not (a.startswith("__") and a.endswith("__")) or isinstance(getattr(av, "__func__", av),
                                                                                      types.FunctionType):
                            add_value(av, mname + "." + v.__qualname__ + "." + a)
                continue
            add_value(v, mname + "." + name)
    _snap.update(taken=True, containers=containers, namespaces=namespaces, clearers=clearers)


def restore():
    """Back to the import-time state; returns a list of what had to be undone."""
    if not _snap["taken"]:
        snapshot()
    undone = []
    for obj, saved in _snap["containers"]:
        if isinstance(obj, collections.deque):
            if list(obj) != saved:
                undone.append(("contents", "deque"))
                obj.clear()
                obj.extend(saved)
            continue
        if obj != saved:
            undone.append(("contents", type(obj).__name__))
            if isinstance(obj, dict):
                obj.clear()
                obj.update(saved)
            elif isinstance(obj, set):
                obj.clear()
                obj.update(saved)
            else:
                obj[:] = saved
    for kind, owner, saved, label in _snap["namespaces"]:
        if kind in ("module", "class"):
            cur = {k: v for k, v in vars(owner).items() if not k.startswith("__")}
        else:
            cur = dict(getattr(owner, "__dict__", {}))
        if len(cur) == len(saved) and all(cur.get(k, _MISSING) is v for k, v in saved.items()):
            continue
        for k in cur:
            if k not in saved:
                undone.append(("added", label, k))
                _learn(kind, owner, k)
                try:
                    if kind in ("module", "class"):
                        delattr(owner, k)
                    else:
                        del owner.__dict__[k]
                except Exception:
                    pass
        for k, v in saved.items():
            if cur.get(k, _MISSING) is not v:
                undone.append(("rebound", label, k))
                _learn(kind, owner, k)
                try:
                    if kind in ("module", "class"):
                        setattr(owner, k, v)
                    else:
                        owner.__dict__[k] = v
                except Exception:
                    pass
    for fn in _snap["clearers"]:
        try:
            fn()
        except Exception:
            pass
    for (name, value, setter), (_n, get, _s) in zip(_snap.get("interp", []), _INTERP):
        try:
            if get() != value:
                undone.append(("interpreter-setting", name))
                setter(value)
        except Exception:
            pass
    re.purge()
    return undone


def accept_current(owner):
    """The harness itself changed this namespace on purpose (its observe-only wrappers): make the current bindings the
    reference."""
    for i, (kind, o, saved, label) in enumerate(_snap["namespaces"]):
        if o is owner:
            if kind in ("module", "class"):
                cur = {k: v for k, v in vars(owner).items() if not k.startswith("__")}
            else:
                cur = dict(getattr(owner, "__dict__", {}))
            _snap["namespaces"][i] = (kind, o, cur, label)


def _learn(kind, owner, name):
    """Remember where shared state turned out to live (for the scheduler)."""
    if kind == "function":
        code = getattr(owner, "__code__", None)
        if code is not None:
            _learned["codes"].add(code)
    _learned["names"].add(name)


def learned():
    return _learned


def stats():
    return {"containers": len(_snap["containers"]), "namespaces": len(_snap["namespaces"]), "clearers": len(_snap["clearers"])}
