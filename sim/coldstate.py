"""Generic "process restarted, only the code survives" for html5lib.

Right after html5lib has been imported (and before any operation runs) the
contents of every piece of process-wide mutable state the library owns are
recorded:

  * module-level dict / list / set / bytearray objects of every html5lib module,
  * mutable containers held in closure cells of module-level functions
    (the moduleFactoryFactory caches),
  * mutable class attributes of classes defined in html5lib,
  * the instance __dict__ of module-level instances of html5lib classes
    (e.g. the entities trie and its prefix cache),
  * functools.lru_cache-style wrappers (cleared through cache_clear()).

restore() puts all of them back to their import-time contents *in place*.
Because it is derived from the modules rather than from a list of known
caches, a cache or memo added anywhere in the library is reset as well -
which is what makes failures caused by such a cache reproducible from a
defined state.
"""
from __future__ import annotations

import re
import sys
import types

_MUTABLE = (dict, list, set, bytearray)
_snap = {"taken": False, "containers": [], "instances": [], "clearers": []}


def _is_lib_module(name):
    return (name == "html5lib" or name.startswith("html5lib.")) and ".tests" not in name


def _copy(obj):
    if isinstance(obj, dict):
        return dict(obj)
    if isinstance(obj, list):
        return list(obj)
    if isinstance(obj, set):
        return set(obj)
    return bytearray(obj)


def snapshot():
    if _snap["taken"]:
        return
    seen = set()
    containers = []
    instances = []
    clearers = []

    def add_container(obj):
        if isinstance(obj, _MUTABLE) and id(obj) not in seen:
            seen.add(id(obj))
            containers.append((obj, _copy(obj)))
            # a container subclass (e.g. the MethodDispatcher tables that are class
            # attributes of every phase) may carry attributes of its own
            d = getattr(obj, "__dict__", None)
            if isinstance(d, dict):
                instances.append((obj, dict(d)))

    def add_function(f):
        for cell in (f.__closure__ or ()):
            try:
                add_container(cell.cell_contents)
            except ValueError:
                pass
        # mutable default arguments are process-wide objects too
        for d in list(f.__defaults__ or ()) + list((f.__kwdefaults__ or {}).values()):
            add_container(d)

    def add_instance(v):
        if id(v) in seen or not hasattr(v, "__dict__"):
            return
        seen.add(id(v))
        d = vars(v)
        for av in list(d.values()):
            add_container(av)
        instances.append((v, dict(d)))

    for mname, mod in list(sys.modules.items()):
        if mod is None or not _is_lib_module(mname):
            continue
        for name, v in list(vars(mod).items()):
            if name.startswith("__"):
                continue
            add_container(v)
            if isinstance(v, types.FunctionType):
                add_function(v)
            if hasattr(v, "cache_clear") and callable(getattr(v, "cache_clear", None)):
                clearers.append(v.cache_clear)
            if isinstance(v, type) and getattr(v, "__module__", "").startswith("html5lib"):
                for a, av in list(vars(v).items()):
                    fobj = getattr(av, "__func__", av)
                    if isinstance(fobj, types.FunctionType):
                        add_function(fobj)
                    if not a.startswith("__"):
                        add_container(av)
                        if (not isinstance(av, (type, types.FunctionType, types.BuiltinFunctionType, property, staticmethod,
                                                classmethod, str, bytes, int, float, tuple, frozenset, bool, type(None)) + _MUTABLE)
                                and type(av).__module__.startswith("html5lib")):
                            add_instance(av)
                    fn = av
                    if hasattr(fn, "cache_clear") and callable(getattr(fn, "cache_clear", None)):
                        clearers.append(fn.cache_clear)
            elif (not isinstance(v, (type, types.ModuleType, types.FunctionType, types.BuiltinFunctionType, str, bytes, int,
                                     float, tuple, frozenset, bool, type(None)) + _MUTABLE)
                  and type(v).__module__.startswith("html5lib") and hasattr(v, "__dict__") and id(v) not in seen):
                seen.add(id(v))
                d = vars(v)
                # mutable containers held by the instance are restored in place,
                # scalar attributes by value
                for av in d.values():
                    add_container(av)
                instances.append((v, dict(d)))
    _snap.update(taken=True, containers=containers, instances=instances, clearers=clearers)


def restore():
    if not _snap["taken"]:
        snapshot()
    for obj, saved in _snap["containers"]:
        if obj != saved:
            if isinstance(obj, dict):
                obj.clear()
                obj.update(saved)
            elif isinstance(obj, list):
                obj[:] = saved
            elif isinstance(obj, set):
                obj.clear()
                obj.update(saved)
            else:
                obj[:] = saved
    for inst, saved in _snap["instances"]:
        d = vars(inst)
        for k in list(d):
            if k not in saved:
                del d[k]
        for k, v in saved.items():
            if d.get(k, None) is not v and not isinstance(v, _MUTABLE):
                d[k] = v
            elif k not in d:
                d[k] = v
    for fn in _snap["clearers"]:
        try:
            fn()
        except Exception:
            pass
    re.purge()


def stats():
    return {"containers": len(_snap["containers"]), "instances": len(_snap["instances"]), "clearers": len(_snap["clearers"])}
