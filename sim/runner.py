"""Batch runner: seeded search over simulated runs, sharded over processes;
classification of failures, minimisation, replay files, evidence."""
from __future__ import annotations

import concurrent.futures as cf
import faulthandler
import importlib
import json
import multiprocessing
import os
import random
import signal
import subprocess
import sys
import threading
import time
from collections import Counter

from . import env
from .minimise import minimise

ENGINE_MODULES = {"C05": "sim.c05", "C06": "sim.c06", "C12": "sim.c12"}
BLOCK = 25
MAX_DIGESTS = 4_000_000
KNOWN_FILE = os.path.join(env.VERIF_DIR, "known_findings.json")
# VERIF_OUT_DIR redirects what a run writes (used by the sensitivity self-test
# so that runs against mutated scratch copies never touch the real evidence)
_OUT = os.environ.get("VERIF_OUT_DIR") or env.VERIF_DIR
REPLAY_DIR = os.path.join(_OUT, "replays")
EVIDENCE_DIR = os.path.join(_OUT, "evidence")


def engine_for(prop):
    return importlib.import_module(ENGINE_MODULES[prop])


def load_known():
    try:
        with open(KNOWN_FILE) as f:
            data = json.load(f)
    except FileNotFoundError:
        return {}
    return {e["id"]: e for e in data.get("findings", [])}


class WatchdogTimeout(BaseException):
    """Wall-clock safety net (harness error, never a VIOLATION).  Derives from
    BaseException so that no `except Exception` in the library or the harness
    can swallow it."""


CASE_WALL_S = 180


def _on_alarm(signum, frame):
    raise WatchdogTimeout("a single simulated run exceeded %d s of wall-clock time" % CASE_WALL_S)


class CpuBudgetExceeded(BaseException):
    """One simulated run has used more CPU time than CASE_CPU_S.  Unlike the wall-clock watchdog this does not depend on how
    loaded the machine is: the slowest run on the unchanged tree needs a few seconds, so a run that burns a minute of CPU is
    a library that does not terminate for this input / history - a liveness violation, with a replay file like any other."""


CASE_CPU_S = 60


def _on_cpu(signum, frame):
    raise CpuBudgetExceeded()


def guarded_execute(eng, case):
    """eng.execute(case) under the CPU budget."""
    main = threading.current_thread() is threading.main_thread()
    if main:
        signal.signal(signal.SIGVTALRM, _on_cpu)
        signal.setitimer(signal.ITIMER_VIRTUAL, CASE_CPU_S)
    try:
        try:
            return eng.execute(case)
        finally:
            if main:
                signal.setitimer(signal.ITIMER_VIRTUAL, 0)
    except CpuBudgetExceeded:
        res = {"ok": False, "oracle": "liveness", "known": None, "digest": None,
               "detail": "one simulated run used more than %d s of CPU time (the slowest run on the unchanged tree needs a few "
                         "seconds): the library does not terminate for this input or history" % CASE_CPU_S,
               "stats": {"faults": {}, "probes": {"cpu_budget_exceeded": 1}, "steps": 0, "reach": [], "nontrivial": False,
                         "fault_free": False}}
        # whatever the aborted run had installed or half-changed: back to a defined state
        try:
            from . import probes
            probes.set_budget(None)
            probes.set_state_fn(None)
        except Exception:
            pass
        if hasattr(eng, "block_start"):
            eng.block_start()
        return res


def _props_of(entry):
    return entry.get("properties") or [entry.get("property")]


# --------------------------------------------------------------------------
# worker side

def run_units(prop, stream, seed, indices, deadline=None, keep_failures=12, want_unit_digests=False):
    eng = engine_for(prop)
    agg = {
        "units": 0, "evaluations": 0, "nontrivial": 0, "digests": set(), "faults": Counter(), "fault_runs": Counter(),
        "probes": Counter(), "reach": set(), "steps": 0, "fault_free": 0, "fault_injecting": 0,
        "failures": [], "fail_counts": Counter(), "samples": [], "unit_digests": {}, "skipped": 0,
        "first": None, "last": None,
    }
    # engines whose runs can be influenced by process-wide state start every
    # block from a defined state, and a failure carries the cases executed
    # before it in the block (its "prelude"), so that it can be replayed
    isolate = hasattr(eng, "block_start")
    if isolate:
        eng.block_start()
    if threading.current_thread() is threading.main_thread():
        signal.signal(signal.SIGALRM, _on_alarm)
    executed = []
    for i in indices:
        if deadline is not None and time.time() > deadline:
            agg["skipped"] += 1
            continue
        rs = env.run_seed(prop, stream, seed, i)
        rng = random.Random(rs)
        cases = eng.gen_unit(rng, stream)
        agg["units"] += 1
        udig = []
        for ci, case in enumerate(cases):
            signal.alarm(CASE_WALL_S)
            try:
                res = guarded_execute(eng, case)
            finally:
                signal.alarm(0)
            if isolate:
                executed.append(case)
            agg["evaluations"] += 1
            st = res["stats"]
            if st.get("nontrivial"):
                agg["nontrivial"] += 1
                if len(agg["digests"]) < MAX_DIGESTS:
                    agg["digests"].add(env.digest64(json.dumps(case, sort_keys=True)))
            for k, v in st.get("faults", {}).items():
                agg["faults"][k] += v
                agg["fault_runs"][k] += 1
            for k, v in st.get("probes", {}).items():
                agg["probes"][k] += v
            agg["reach"].update(st.get("reach", ()))
            agg["steps"] += st.get("steps", 0)
            if st.get("fault_free"):
                agg["fault_free"] += 1
            else:
                agg["fault_injecting"] += 1
            udig.append(res.get("digest"))
            if not res["ok"]:
                key = (res["oracle"], res.get("known"))
                agg["fail_counts"][key] += 1
                mine = [f for f in agg["failures"] if (f["oracle"], f["known"]) == key]
                if len(mine) < 3 and len(agg["failures"]) < keep_failures:
                    agg["failures"].append({"case": res.get("explicit_case") or case, "oracle": res["oracle"], "known": res.get("known"),
                                            "detail": res["detail"], "unit": i, "stream": stream, "run_seed": rs,
                                            "case_index": ci, "prelude": list(executed[:-1]) if isolate else []})
            if len(agg["samples"]) < 2 and st.get("nontrivial"):
                agg["samples"].append(eng.describe(case))
        if want_unit_digests:
            agg["unit_digests"]["%s:%d" % (stream, i)] = env.digest(udig)[:16]
    return agg


def _worker(args, marker_dir=None, tid=None):
    faulthandler.dump_traceback_later(1500, exit=True)
    if marker_dir is not None:
        # which task this worker is in, for the parent to know should the interpreter die under it
        open(os.path.join(marker_dir, "started-%d" % tid), "w").close()
    try:
        return run_units(*args)
    finally:
        faulthandler.cancel_dump_traceback_later()
        if marker_dir is not None:
            try:
                open(os.path.join(marker_dir, "finished-%d" % tid), "w").close()
            except OSError:
                pass


def _run_pool(tasks, workers, on_part):
    """Run the tasks on a pool of forked workers.  A worker that dies abruptly (the interpreter itself crashing under some
    change of the library) must not take the whole batch with it: the tasks that were not running at that moment are re-run on
    a new pool, the ones that were are re-run one at a time, and those that kill their worker again are returned."""
    import shutil
    import tempfile
    from concurrent.futures.process import BrokenProcessPool
    ctx = multiprocessing.get_context("fork")
    pending = list(enumerate(tasks))
    crashed = []
    rounds = 0
    while pending:
        rounds += 1
        marker_dir = tempfile.mkdtemp(prefix="h5sim_mark_")
        consumed = set()
        broke = False
        futs = {}
        try:
            with cf.ProcessPoolExecutor(max_workers=max(1, min(workers, len(pending))), mp_context=ctx) as ex:
                futs = {ex.submit(_worker, t, marker_dir, tid): (tid, t) for tid, t in pending}
                try:
                    for fut in cf.as_completed(futs):
                        part = fut.result()
                        consumed.add(futs[fut][0])
                        on_part(futs[fut][1], part)
                except BrokenProcessPool:
                    broke = True
            if not broke:
                break
            # results that were ready but not yet looked at
            for fut, (tid, t) in futs.items():
                if tid not in consumed and fut.done() and not fut.cancelled() and fut.exception() is None:
                    consumed.add(tid)
                    on_part(t, fut.result())
            marks = set(os.listdir(marker_dir))
        finally:
            shutil.rmtree(marker_dir, ignore_errors=True)
        unfinished = [(tid, t) for tid, t in pending if tid not in consumed]
        suspects = [(tid, t) for tid, t in unfinished if "started-%d" % tid in marks and "finished-%d" % tid not in marks]
        others = [(tid, t) for tid, t in unfinished if (tid, t) not in suspects]
        for tid, t in suspects:
            try:
                with cf.ProcessPoolExecutor(max_workers=1, mp_context=ctx) as ex1:
                    on_part(t, ex1.submit(_worker, t).result())
            except BrokenProcessPool:
                crashed.append(t)
        pending = others
        if rounds >= 8:
            crashed.extend(t for _tid, t in pending)
            break
    return crashed


def merge(total, part):
    for k in ("units", "evaluations", "nontrivial", "steps", "fault_free", "fault_injecting", "skipped"):
        total[k] = total.get(k, 0) + part[k]
    for k in ("faults", "fault_runs", "probes", "fail_counts"):
        total.setdefault(k, Counter()).update(part[k])
    total.setdefault("reach", set()).update(part["reach"])
    d = total.setdefault("digests", set())
    if len(d) < MAX_DIGESTS:
        d.update(part["digests"])
    total.setdefault("failures", []).extend(part["failures"])
    if len(total.setdefault("samples", [])) < 4:
        total["samples"].extend(part["samples"][:1])
    total.setdefault("unit_digests", {}).update(part["unit_digests"])


# --------------------------------------------------------------------------
# parent side

def tier_plan(eng, tier):
    """[(stream, n_units)], wall cap seconds."""
    return eng.plan(tier)


def run_batch(prop, tier, seed, workers, units_override=None, wall_cap=None, quiet=False):
    eng = engine_for(prop)
    plan, cap = eng.plan(tier)
    if wall_cap:
        cap = wall_cap
    if units_override is not None:
        plan = [(s, max(1, int(units_override * n / max(1, sum(m for _s, m in plan))))) for s, n in plan]
    t0 = time.time()
    deadline = t0 + cap
    tasks = []
    for stream, n in plan:
        block = getattr(eng, "BLOCK", BLOCK)
        for start in range(0, n, block):
            idx = list(range(start, min(n, start + block)))
            tasks.append((prop, stream, seed, idx, deadline, 12, start == 0))
    # the blocks of all streams interleaved (by their relative position in their stream): a wall cap then thins every stream
    # out alike instead of cutting the last streams of the plan entirely
    sizes = dict(plan)
    tasks.sort(key=lambda t: (t[3][0] / float(max(1, sizes.get(t[1], 1))), t[1]))
    total = {}
    per_stream = {}
    if workers <= 1:
        for t in tasks:
            part = run_units(*t)
            merge(total, part)
            _stream_acc(per_stream, t[1], part)
    else:
        def on_part(t, part):
            merge(total, part)
            _stream_acc(per_stream, t[1], part)
        crashed = _run_pool(tasks, workers, on_part)
        total["crashed"] = [(t[1], t[3][0], t[3][-1]) for t in crashed]     # (stream, first unit, last unit)
    total["wall_s"] = time.time() - t0
    total["plan"] = plan
    total["per_stream"] = per_stream
    return total


def _stream_acc(per_stream, stream, part):
    s = per_stream.setdefault(stream, {"units": 0, "evaluations": 0, "nontrivial": 0, "runs_flagged_incl_known_findings": 0})
    s["units"] += part["units"]
    s["evaluations"] += part["evaluations"]
    s["nontrivial"] += part["nontrivial"]
    s["runs_flagged_incl_known_findings"] += sum(part["fail_counts"].values())


def determinism_selfcheck(prop, seed, n_units=16, pool_digests=None):
    """Re-run the first units of every stream in a *fresh interpreter* under a
    different PYTHONHASHSEED with one worker and compare per-unit digests with
    the ones the worker pool of this batch produced (first block of every
    stream), or with a re-run in this process when there are none."""
    eng = engine_for(prop)
    plan, _cap = eng.plan("quick")
    mine = {}
    for stream, n in plan:
        k = min(n, n_units, getattr(eng, "BLOCK", BLOCK))
        have = {key: d for key, d in (pool_digests or {}).items() if key.startswith(stream + ":")}
        if len(have) >= k:
            mine[stream] = {key: d for key, d in have.items() if int(key.split(":")[1]) < k}
        else:
            part = run_units(prop, stream, seed, list(range(k)), None, 0, True)
            mine[stream] = part["unit_digests"]
    envv = dict(os.environ)
    envv["PYTHONHASHSEED"] = "4242" if os.environ.get("PYTHONHASHSEED") != "4242" else "77"
    envv["VERIF_SEED"] = str(seed)
    out = subprocess.run([sys.executable, "-m", "sim", "digests", prop, "--units", str(n_units)],
                         cwd=env.VERIF_DIR, env=envv, capture_output=True, text=True, timeout=900)
    if out.returncode != 0:
        return {"checked": 0, "diverged": -1, "error": out.stderr[-2000:]}
    other = json.loads(out.stdout.strip().splitlines()[-1])
    checked = 0
    diverged = []
    for stream, d in mine.items():
        for key, dg in d.items():
            checked += 1
            if other.get(stream, {}).get(key) != dg:
                diverged.append(key)
    return {"checked": checked, "diverged": len(diverged), "which": diverged[:5]}


def digests_cmd(prop, seed, n_units):
    eng = engine_for(prop)
    plan, _cap = eng.plan("quick")
    out = {}
    block = getattr(eng, "BLOCK", BLOCK)
    for stream, n in plan:
        k = min(n, n_units)
        out[stream] = {}
        for start in range(0, k, block):     # block by block, exactly as the worker pool does
            part = run_units(prop, stream, seed, list(range(start, min(k, start + block))), None, 0, True)
            out[stream].update(part["unit_digests"])
    print(json.dumps(out, sort_keys=True))
    return 0


class Composite(object):
    """A case together with the cases that ran before it in the same block of
    the same worker process: {"prelude": [...], "case": {...}}."""

    def __init__(self, eng):
        self.eng = eng

    def execute(self, comp):
        eng = self.eng
        if hasattr(eng, "block_start"):
            eng.block_start()
        for c in comp.get("prelude") or []:
            try:
                guarded_execute(eng, c)
            except Exception:
                pass
        return guarded_execute(eng, comp["case"])

    def shrinks(self, comp):
        pre = comp.get("prelude") or []
        if pre:
            yield dict(comp, prelude=[])
            n = len(pre)
            size = n // 2
            while size >= 1:
                for i in range(0, n, size):
                    cand = pre[:i] + pre[i + size:]
                    if cand != pre:
                        yield dict(comp, prelude=cand)
                size //= 2
        for c in self.eng.shrinks(comp["case"]):
            yield dict(comp, case=c)
        for k, pc in enumerate(pre):
            for c in self.eng.shrinks(pc):
                yield dict(comp, prelude=pre[:k] + [c] + pre[k + 1:])

    def describe(self, comp):
        d = self.eng.describe(comp["case"])
        if comp.get("prelude"):
            return {"prelude (ran before, same process)": [self.eng.describe(c) for c in comp["prelude"]], "case": d}
        return d


def write_replay(prop, failure, comp, res, seed, execs, minimised):
    os.makedirs(REPLAY_DIR, exist_ok=True)
    name = "%s-%d-%s-%s-u%d%s.json" % (prop, seed, failure["stream"], res["oracle"], failure["unit"], "" if minimised else "-full")
    path = os.path.join(REPLAY_DIR, name)
    with open(path, "w") as f:
        json.dump({"property": prop, "oracle": res["oracle"], "known": res.get("known"), "verif_seed": seed,
                   "stream": failure["stream"], "unit": failure["unit"], "run_seed": failure["run_seed"],
                   "detail": res["detail"], "minimised": minimised, "minimiser_executions": execs,
                   "case": comp["case"], "prelude": comp.get("prelude") or [],
                   "original_case": failure["case"] if minimised else None}, f, indent=1, sort_keys=True)
    return path


def replay_file(path, quiet=False):
    with open(path) as f:
        rep = json.load(f)
    prop = rep["property"]
    eng = engine_for(prop)
    comp = {"case": rep["case"], "prelude": rep.get("prelude") or []}
    res = Composite(eng).execute(comp)
    if not quiet:
        print("replay %s: ok=%s oracle=%s known=%s" % (path, res["ok"], res["oracle"], res.get("known")))
        print("  detail: %s" % res["detail"])
        print("  case: %s" % json.dumps(Composite(eng).describe(comp), sort_keys=True)[:2000])
    if res["ok"]:
        return 0, res
    if res["oracle"] == rep["oracle"]:
        known = load_known()
        k = res.get("known")
        if k and k in known and known[k].get("status") == "open" and prop in _props_of(known[k]):
            if not quiet:
                print("KNOWN-FINDING: property=%s %s" % (prop, known[k]["what"]))
            return 0, res
        if not quiet:
            print("VIOLATION property=%s replay=%s" % (prop, path))
        return 1, res
    if not quiet:
        print("replay fails with a different oracle (%s, recorded %s)" % (res["oracle"], rep["oracle"]))
        print("VIOLATION property=%s replay=%s" % (prop, path))
    return 1, res


def confirm_in_fresh_process(path):
    envv = dict(os.environ)
    envv["PYTHONHASHSEED"] = "9"
    out = subprocess.run([sys.executable, "-m", "sim", "replay", path], cwd=env.VERIF_DIR, env=envv,
                         capture_output=True, text=True, timeout=600)
    return out.returncode, out.stdout


def check(prop, tier, workers=None, units=None, wall_cap=None, selfcheck=True):
    seed = env.verif_seed()
    eng = engine_for(prop)
    workers = workers or min(16, os.cpu_count() or 1)
    print("check %s tier=%s VERIF_SEED=%d workers=%d repo=%s" % (prop, tier, seed, workers, env.REPO), flush=True)
    t0 = time.time()
    total = run_batch(prop, tier, seed, workers, units, wall_cap)
    known = load_known()
    exit_code = 0
    lines = []
    known_seen = {}
    violations = []

    groups = {}
    for f in total.get("failures", []):
        groups.setdefault((f["oracle"], f["known"]), []).append(f)
    for (oracle, kid), fs in sorted(groups.items(), key=lambda kv: (str(kv[0][0]), str(kv[0][1]))):
        if kid and kid in known and known[kid].get("status") == "open" and prop in _props_of(known[kid]):
            known_seen[kid] = total["fail_counts"][(oracle, kid)]
            lines.append("KNOWN-FINDING: property=%s %s (%s; seen in %d runs of this batch)"
                         % (prop, known[kid]["what"], kid, known_seen[kid]))
            continue
        # a violation: minimise a small representative, write replay, confirm
        fs.sort(key=lambda f: (len(json.dumps(f["case"])), f["unit"]))
        ceng = Composite(eng)
        comp = res0 = None
        for f in fs[:3]:
            # first alone (from the defined start state), then with the cases
            # that preceded it in its block
            for pre in ([], f.get("prelude") or []):
                comp = {"case": f["case"], "prelude": pre}
                res0 = ceng.execute(comp)
                if not res0["ok"] and res0["oracle"] == oracle:
                    break
                if not f.get("prelude"):
                    break
            if not res0["ok"] and res0["oracle"] == oracle:
                break
        if res0["ok"] or res0["oracle"] != oracle:
            lines.append("HARNESS-ERROR: failure of unit %d (%s) did not reproduce in the parent process" % (f["unit"], oracle))
            exit_code = max(exit_code, 2)
            continue
        mcomp, mres, execs = minimise(ceng, comp, res0)
        mcase = mcomp
        path = write_replay(prop, f, mcomp, mres, seed, execs, True)
        rc, out = confirm_in_fresh_process(path)
        if rc == 1:
            violations.append({"oracle": oracle, "known": kid, "replay": path, "count": total["fail_counts"][(oracle, kid)],
                               "detail": mres["detail"], "case": ceng.describe(mcase)})
            lines.append("VIOLATION property=%s replay=%s" % (prop, path))
            lines.append("  oracle=%s runs_failing=%d detail=%s" % (oracle, total["fail_counts"][(oracle, kid)], mres["detail"][:300]))
            lines.append("  minimised case: %s" % json.dumps(ceng.describe(mcase), sort_keys=True)[:1500])
        else:
            # the minimised case depends on something of the parent process's history: fall back to the case as it
            # was found (with its prelude), which is confirmed the same way
            path0 = write_replay(prop, f, comp, res0, seed, 0, False)
            rc0, _out0 = confirm_in_fresh_process(path0)
            if rc0 == 1:
                violations.append({"oracle": oracle, "known": kid, "replay": path0, "count": total["fail_counts"][(oracle, kid)],
                                   "detail": res0["detail"], "case": ceng.describe(comp), "minimised": False})
                lines.append("VIOLATION property=%s replay=%s" % (prop, path0))
                lines.append("  oracle=%s runs_failing=%d detail=%s" % (oracle, total["fail_counts"][(oracle, kid)], res0["detail"][:300]))
                lines.append("  (not minimised: the minimised case did not reproduce in a fresh process)")
            else:
                lines.append("HARNESS-ERROR: neither the minimised replay %s nor the unminimised one reproduced in a fresh "
                             "process (rc=%s/%s)" % (path, rc, rc0))
                exit_code = max(exit_code, 2)

    if total.get("crashed"):
        lines.append("HARNESS-ERROR: the interpreter itself died (signal) while executing %d block(s) of units, also when each was "
                     "re-run alone: %s - not counted as violations" % (len(total["crashed"]), total["crashed"][:6]))
        exit_code = max(exit_code, 2)
    det = {"checked": 0, "diverged": 0}
    if selfcheck:
        det = determinism_selfcheck(prop, seed, pool_digests=total.get("unit_digests"))
        if det.get("diverged"):
            lines.append("HARNESS-ERROR: determinism self-check diverged: %s" % (det,))
            exit_code = max(exit_code, 2)

    if violations:
        # every entry of `violations` was reproduced in this process, minimised, written out and reproduced once more from its
        # replay file in a fresh interpreter: it stands whatever else went wrong in the batch (harness errors are printed too)
        exit_code = 1

    wall = time.time() - t0
    write_evidence(prop, tier, seed, eng, total, known_seen, violations, det, wall, workers)
    for ln in lines:
        print(ln)
    ev = total
    print("%s: %d units, %d simulated runs (%d non-trivial, %d distinct), %d steps, %.1fs, %s runs/h; "
          "known-finding runs=%d, violations=%d, skipped units=%d, determinism %d/%d"
          % (prop, ev["units"], ev["evaluations"], ev["nontrivial"], len(ev["digests"]), ev["steps"], wall,
             int(ev["evaluations"] / max(wall, 1e-9) * 3600), sum(known_seen.values()), len(violations), ev["skipped"],
             det.get("checked", 0) - max(0, det.get("diverged", 0)), det.get("checked", 0)), flush=True)
    return exit_code


def write_evidence(prop, tier, seed, eng, total, known_seen, violations, det, wall, workers):
    os.makedirs(EVIDENCE_DIR, exist_ok=True)
    distinct = len(total["digests"])
    rule = eng.RULE
    if distinct >= MAX_DIGESTS:
        rule += " (distinct count is exact up to %d digests and a lower bound beyond)" % MAX_DIGESTS
    probes = dict(sorted(total["probes"].items()))
    cov = {
        "evaluations": total["evaluations"],
        "distinct_nontrivial": distinct,
        "rule": rule,
        "samples": total["samples"][:4],
        "units": total["units"],
        "units_skipped_by_wall_cap": total["skipped"],
        "nontrivial_runs": total["nontrivial"],
        "runs_per_hour": int(total["evaluations"] / max(wall, 1e-9) * 3600),
        "simulated_steps": total["steps"],
        "simulated_time_note": "html5lib has no clock; simulated time is counted in logical steps (read events, chunk refills, "
                               "operations, traced line events)",
        "seed_streams": [{"stream": s, "unit_indices": [0, n - 1]} for s, n in total["plan"]],
        "per_stream": total["per_stream"],
        "faults_fired": dict(sorted(total["faults"].items())),
        "runs_with_fault": dict(sorted(total["fault_runs"].items())),
        "fault_free_runs": total["fault_free"],
        "fault_injecting_runs": total["fault_injecting"],
        "probes": probes,
        "probes_expected_nonzero": {p: probes.get(p, 0) for p in getattr(eng, "EXPECTED_PROBES", [])},
        "reach_measure": getattr(eng, "REACH_NOTE", ""),
        "reach_distinct": len(total["reach"]),
        "determinism_checked": det.get("checked", 0),
        "determinism_diverged": det.get("diverged", 0),
        "known_findings_seen": known_seen,
        "violations_found": violations,
        "workers": workers,
        "real_vs_stub": eng.REAL_VS_STUB,
        "repo": env.REPO,
    }
    ev = {
        "property_id": prop, "tier": tier if tier in ("quick", "thorough") else "quick", "seed": seed,
        "level": "exploration", "coverage": cov,
        "assumptions": eng.ASSUMPTIONS,
        "wall_s": round(wall, 2), "violations": len(violations),
    }
    path = os.path.join(EVIDENCE_DIR, "%s.json" % prop)
    tmp = path + ".tmp"
    with open(tmp, "w") as f:
        json.dump(ev, f, indent=1, sort_keys=True, default=str)
    os.replace(tmp, path)
