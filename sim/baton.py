"""baton - deterministic thread scheduler for C12/M3 (seam S4).

Real threading.Thread workers of which exactly one runs at a time.  Each
worker installs a sys.settrace tracer that is active only in frames whose code
lives under <repo>/html5lib; `line` events there are the pre-emption points.
Which thread runs next, and for how many line events, is decided by the
simulator: from a PRNG (exploration; the quanta actually taken are recorded)
or from an explicit list of quanta (replay).
"""
from __future__ import annotations

import os
import random
import re
import sys
import threading
import types

from . import env
from . import probes

HTML5LIB_DIR = os.path.join(env.REPO, "html5lib") + os.sep
import xml as _xml  # noqa: E402
XML_DIR = os.path.dirname(os.path.abspath(_xml.__file__)) + os.sep
MAX_STEPS = 3000000
RARE_LINES = 30
import sysconfig as _sysconfig  # noqa: E402
STDLIB_DIR = _sysconfig.get_paths()["stdlib"] + os.sep
SIM_DIR = os.path.dirname(os.path.abspath(__file__)) + os.sep
# Pure-Python code of the standard library (and of webencodings / six) that html5lib calls into is pre-emptable as well when the
# call comes from html5lib: `ChainMap.get`, the Mapping mix-in methods, `re` internals, codecs, minidom ... execute many
# bytecodes between two lines of html5lib, and a real thread switch can fall between any two of them.  Allow-list, not
# everything: modules that take C-level locks a parked thread would keep (importlib, threading, logging, queue, io buffers
# of sockets ...) and modules only the harness's own sources use (http, email, urllib, socket) are left alone.
LIB_ALLOW_TOP = frozenset([
    # only modules whose Python-level execution does not depend on what the process did before (no memo of its own that the
    # cold restart does not reset): `encodings` / `codecs` (search function runs once per codec and process), `re` (compile
    # cache), `warnings` (once-per-location registry), `functools`, `abc` ... stay untraced
    "collections", "_collections_abc.py", "copy.py", "string.py", "types.py", "operator.py", "contextlib.py", "xml", "reprlib.py", "numbers.py",
])
# ... and within those, not the hooks behind isinstance()/issubclass(): whether they run depends on the ABC caches of the process
LIB_SKIP_FUNCS = frozenset(["__subclasshook__", "__instancecheck__", "__subclasscheck__", "_check_methods", "register"])
_lib_file = {}


def _lib_file_traced(fn):
    v = _lib_file.get(fn)
    if v is None:
        v = False
        if fn.startswith(STDLIB_DIR):
            rel = fn[len(STDLIB_DIR):]
            if not rel.startswith("site-packages"):
                v = rel.split(os.sep)[0] in LIB_ALLOW_TOP
            else:
                top = rel.split(os.sep)[1] if os.sep in rel else ""
                v = top == "webencodings"      # (not six: its lazy attributes resolve once per process - a memo)
        elif (os.sep + "webencodings" + os.sep) in fn:
            v = True
        _lib_file[fn] = v
    return v
WORKER_WALL_S = 120
DEBUG_TRACE = None   # set to a list to record every traced step (debugging of the scheduler itself)


class StepBudgetExceeded(BaseException):
    """Raised *inside* a simulated thread (from its trace function) when the run exceeds its budget of line events: the
    thread unwinds instead of running on untraced.  BaseException, so that no `except Exception` swallows it."""


# --------------------------------------------------------------------------
# Which code is "hot" (touches state shared by independent caller threads) is
# derived from the code itself, not from a list of names, so that a cache or
# memoisation added anywhere in html5lib is covered too:
#   (a) functions whose code names a module-level mutable container of their
#       own module (dict/list/set/bytearray not defined in html5lib.constants),
#   (b) functions closing over a mutable container (moduleFactoryFactory),
#   (c) methods called on an instance that is bound at module level somewhere
#       in html5lib (e.g. the entities trie shared by every tokenizer),
#   (d) methods naming a mutable container that is a class attribute.
_MUTABLE = (dict, list, set, bytearray)
_IMMUTABLE_GLOBALS = (type, types.ModuleType, types.FunctionType, types.BuiltinFunctionType, types.MethodType, str, bytes, int, float,
                      complex, tuple, frozenset, bool, type(None), re.Pattern, property, staticmethod, classmethod, type(Ellipsis))
_shared = {"built": False}
# (e) functions that name one of the interpreter-wide settings or registries of the standard library: state that is shared
#     by every thread although it lives in none of the library's modules (and that a set / try / finally-restore leaves
#     equal before and after, so that nothing is ever left to learn from)
INTERPRETER_WIDE_NAMES = frozenset([
    "set_int_max_str_digits", "setrecursionlimit", "setswitchinterval", "settrace", "setprofile", "setcheckinterval", "setdlopenflags",
    "environ", "putenv", "unsetenv", "chdir", "umask", "setlocale", "register", "register_error", "unregister", "filterwarnings",
    "simplefilter", "resetwarnings", "showwarning", "catch_warnings", "setdefaulttimeout", "seed", "setstate", "tempdir", "excepthook",
    "displayhook", "path_hooks", "meta_path", "path_importer_cache", "modules", "setrlimit", "setitimer", "alarm", "setcontext",
    "localcontext", "getcontext", "set_debug", "set_threshold", "disable", "enable", "freeze", "purge", "_cache", "field_size_limit",
    "stdout", "stderr", "stdin", "builtins", "__builtins__", "setdefault_timeout", "install_opener", "RegisterNamespace", "register_namespace",
    "_namespace_map",
])
from . import coldstate as _coldstate  # noqa: E402
_learned = _coldstate.learned()


def _build_shared_index():
    const_mod = sys.modules.get("html5lib.constants")
    const_ids = {id(v) for v in vars(const_mod).values()} if const_mod else set()
    mutable_globals = {}     # module name -> set of global names bound to mutable containers
    shared_instances = set()  # ids of instances of html5lib classes bound at module level
    class_mutables = {}      # class qualname -> names of mutable class attributes
    for mname, mod in list(sys.modules.items()):
        if mod is None or not (mname == "html5lib" or mname.startswith("html5lib.")) or ".tests" in mname:
            continue
        if mname == "html5lib.constants":
            continue
        names = set()
        for name, v in list(vars(mod).items()):
            if name.startswith("__"):
                continue
            if isinstance(v, _MUTABLE) and id(v) not in const_ids:
                names.add(name)
            elif not isinstance(v, _IMMUTABLE_GLOBALS) and not type(v).__module__.startswith("html5lib") \
                    and id(v) not in const_ids:
                # anything else that may carry state between calls: scratch buffers (io.StringIO), iterators, generators,
                # incremental encoders/decoders, regex scanners, lru_cache wrappers, arbitrary foreign objects
                names.add(name)
            elif (not isinstance(v, (type, types.ModuleType, types.FunctionType, types.BuiltinFunctionType, str, bytes, int,
                                     float, tuple, frozenset, bool, type(None)))
                  and type(v).__module__.startswith("html5lib") and id(v) not in const_ids):
                shared_instances.add(id(v))
            if isinstance(v, type) and v.__module__ == mname:
                attrs = {a for a, av in vars(v).items() if _stateful(av) and not a.startswith("__")}
                if attrs:
                    class_mutables[v.__qualname__] = attrs
                # objects that are class attributes are shared by every instance in every thread
                for a, av in vars(v).items():
                    if a.startswith("__"):
                        continue
                    if isinstance(av, _MUTABLE) or (type(av).__module__.startswith("html5lib") and hasattr(av, "__dict__")
                                                    and not isinstance(av, (type, types.FunctionType, property, staticmethod,
                                                                            classmethod))):
                        shared_instances.add(id(av))
        # module globals that some function of the module REBINDS at run time (STORE_GLOBAL / DELETE_GLOBAL in its
        # bytecode) are shared state whatever their current value is (None, a str, a function ...): every function that
        # names them is hot
        names |= _rebound_globals(mod)
        mutable_globals[mname] = names
    # functions with a mutable default argument: the default object is shared by every call in every thread
    hot_codes = set()
    for mname, mod in list(sys.modules.items()):
        if mod is None or not (mname == "html5lib" or mname.startswith("html5lib.")) or ".tests" in mname:
            continue
        funcs = []
        for v in list(vars(mod).values()):
            if isinstance(v, types.FunctionType):
                funcs.append(v)
            elif isinstance(v, type) and v.__module__ == mname:
                for av in vars(v).values():
                    f = getattr(av, "__func__", av)
                    if isinstance(f, types.FunctionType):
                        funcs.append(f)
        for f in funcs:
            defaults = list(f.__defaults__ or ()) + list((f.__kwdefaults__ or {}).values())
            if any(isinstance(d, _MUTABLE) for d in defaults):
                hot_codes.add(f.__code__)
    _shared["hot_codes"] = hot_codes
    _shared.update(built=True, mutable_globals=mutable_globals, shared_instances=shared_instances,
                   class_mutables=class_mutables, code_hot={}, type_mutables={}, code_type_hot={})


def _rebound_globals(mod):
    import dis
    found = set()
    seen = set()

    def scan(code):
        if code in seen:
            return
        seen.add(code)
        for ins in dis.get_instructions(code):
            if ins.opname in ("STORE_GLOBAL", "DELETE_GLOBAL"):
                found.add(ins.argval)
        for c in code.co_consts:
            if isinstance(c, types.CodeType):
                scan(c)
    mname = mod.__name__
    for v in list(vars(mod).values()):
        if isinstance(v, types.FunctionType) and v.__module__ == mname:
            scan(v.__code__)
        elif isinstance(v, type) and v.__module__ == mname:
            for av in vars(v).values():
                f = getattr(av, "__func__", av)
                if isinstance(f, types.FunctionType):
                    scan(f.__code__)
                elif isinstance(av, property):
                    for g in (av.fget, av.fset, av.fdel):
                        if isinstance(g, types.FunctionType):
                            scan(g.__code__)
    return found


def _stores_attr_on_shared(code):
    """Does this code assign or delete an attribute of an object it reaches through a module global (a module, a class, a
    module-level instance: `constants.x = v`, `Phase.flag = v`) or through the class of an instance (`type(self).x = v`,
    `self.__class__.x = v`)?  Such an attribute is shared by every thread whatever its value is."""
    import dis
    ins = list(dis.get_instructions(code))
    for i, x in enumerate(ins):
        if x.opname not in ("STORE_ATTR", "DELETE_ATTR") or i == 0:
            continue
        prev = ins[i - 1]
        if prev.opname in ("LOAD_GLOBAL", "LOAD_NAME"):
            return True
        if prev.opname == "LOAD_ATTR" and prev.argval == "__class__":
            return True
        if prev.opname in ("CALL", "CALL_FUNCTION", "PRECALL"):
            # type(x).attr = v
            for back in ins[max(0, i - 6):i - 1]:
                if back.opname in ("LOAD_GLOBAL", "LOAD_NAME") and back.argval == "type":
                    return True
    return False


def _stateful(av):
    """A class-level value that may carry state between calls: a container, or any object that is neither a scalar nor code
    (an io.StringIO used as a scratch buffer, an itertools.count, an array, a regex scanner, a partial ...)."""
    if isinstance(av, _MUTABLE):
        return True
    return not isinstance(av, _IMMUTABLE_GLOBALS + (types.MemberDescriptorType, types.GetSetDescriptorType, types.WrapperDescriptorType,
                                                    types.MethodDescriptorType, types.ClassMethodDescriptorType))


def _type_mutable_names(t):
    """Names of class-level state (containers and other stateful objects) visible on instances of t (whole MRO)."""
    tm = _shared["type_mutables"]
    names = tm.get(t)
    if names is None:
        names = set()
        for k in t.__mro__:
            if getattr(k, "__module__", "").startswith("html5lib"):
                names |= {a for a, av in vars(k).items() if _stateful(av) and not a.startswith("__")}
        tm[t] = names
    return names


def frame_is_hot(frame):
    if not _shared["built"]:
        _build_shared_index()
    code = frame.f_code
    if code in _shared["hot_codes"]:
        return True
    # where shared state turned out to live in earlier runs of this process (coldstate.restore() had to undo it): a memo
    # kept as attributes of a function, a name added to or rebound in a module or class at run time
    ln = _learned
    if ln["codes"] or ln["names"]:
        if code in ln["codes"]:
            return True
        if ln["names"].intersection(code.co_names):
            return True
        # ... or reaches it through a string constant (vars(module).setdefault("name", ...), getattr(obj, "name"))
        if ln["names"].intersection(c for c in code.co_consts if isinstance(c, str)):
            return True
    cache = _shared["code_hot"]
    static = cache.get(code)
    if static is None:
        names = set(code.co_names)
        static = bool(names & _shared["mutable_globals"].get(frame.f_globals.get("__name__"), set())) or \
            bool(names & INTERPRETER_WIDE_NAMES) or _stores_attr_on_shared(code)
        if not static and code.co_freevars:
            loc = frame.f_locals
            static = any(isinstance(loc.get(fv), _MUTABLE) for fv in code.co_freevars)
        if not static:
            qual = getattr(code, "co_qualname", "")
            cls = qual.rsplit(".", 1)[0] if "." in qual else None
            if cls and names & _shared["class_mutables"].get(cls, set()):
                static = True
        cache[code] = static
    if static:
        return True
    if code.co_argcount and code.co_varnames[0] == "self":
        me = frame.f_locals.get("self")
        if me is not None:
            if id(me) in _shared["shared_instances"]:
                return True
            # a method (possibly inherited) that names a class-level mutable container of the instance's class,
            # e.g. Phase.processStartTag looking up self.startTagHandler, the dispatch table shared by all parsers
            key = (code, type(me))
            cth = _shared["code_type_hot"]
            hot = cth.get(key)
            if hot is None:
                hot = cth[key] = bool(set(code.co_names) & _type_mutable_names(type(me)))
            return hot
    return False


class _Worker(object):
    def __init__(self, tid, fn):
        self.tid = tid
        self.fn = fn
        self.sem = threading.Semaphore(0)
        self.done = False
        self.steps = 0            # line events executed so far
        self.quantum_left = None  # replay: line events until forced yield
        self.result = None
        self.error = None
        self.thread = None
        self.hot_yields = 0
        self.sleep_until = 0      # not scheduled before the run's total step count has reached this
        self.sleep_code = None    # the code object it went to sleep in
        self.countdown = 0        # > 0: forced pre-emption after that many further line events (rendezvous)


class Baton(object):
    def __init__(self, fns, rng=None, quanta=None, p_hot=0.5, p_warm=0.02, p_cold=0.005, opcodes=True, opcodes_all=False, p_sleep=0.0, p_rare=0.0, lib=False, weights=None):
        # long suspensions: a thread pre-empted inside a hot function it has entered only a few times in this run (a rarely
        # executed piece of code that touches shared state) may be put to SLEEP while the others make a few hundred to a few
        # ten thousand steps - under uniform random choice at every pre-emption point a thread never stays parked that long;
        # a thread that arrives in the function another one sleeps in wakes it and goes to sleep itself (rendezvous)
        self.p_sleep = p_sleep
        # rarely executed code: the first RARE_LINES line events of every (thread, function) are pre-empted with p_rare
        # even in frames nothing marks as touching shared state - the per-line probability of a cold frame is right for
        # code that runs thousands of lines per call (the token loop), not for a helper that runs once per document
        self.p_rare = p_rare
        self.base_state = None    # interpreter-wide settings at the start of the run (see _yield)
        self.q_state = None       # ... and when the running thread was last handed the baton
        self.dirty_windows = 0
        self.sleepers = 0         # > 0: some thread may be asleep (upper bound, recomputed by the scheduler)
        # threads that run at different speeds: the scheduler picks the next thread with probability proportional to its weight
        self.weights = list(weights) if weights else None
        self.lib = lib            # are frames of the standard library called from html5lib pre-emptable in this run?
        self.lib_frames = 0       # frames of the standard library (called from html5lib) that were pre-emptable
        self.lines = {}           # (tid, code) -> line events seen
        self.rare_preemptions = 0
        self.calls = {}           # (tid, code) -> number of frames of that code entered by that thread in this run
        self.sleeps = 0
        self.rendezvous = 0
        self.opcodes = opcodes or opcodes_all
        self.opcodes_all = opcodes_all      # per-bytecode pre-emption in EVERY html5lib frame, not only in hot ones
        self.workers = [_Worker(i, fn) for i, fn in enumerate(fns)]
        self.sched_sem = threading.Semaphore(0)
        self.rng = rng
        self.replay = list(quanta) if quanta is not None else None
        self.taken = []           # [(tid, steps)] actually executed
        self.p_hot, self.p_warm, self.p_cold = p_hot, p_warm, p_cold
        self.total_steps = 0
        self.preemptions = 0
        self.hot_preemptions = 0
        self.order_digest = []    # (tid, co_name) at each pre-emption inside a hot function
        self.overrun = False
        self._cur_steps = 0
        self._by_thread = {}
        self.p_io = 0.35
        self.io_preemptions = 0

    # ---- worker side ----------------------------------------------------
    def _make_tracer(self, w):
        baton = self
        prefix = HTML5LIB_DIR

        def make_local(hot, lib=False):
            p = baton.p_hot if hot else baton.p_cold
            p_op = p / 4.0
            count_ops = (hot or baton.opcodes_all) and not lib

            def local(frame, event, arg):
                if DEBUG_TRACE is not None and event in ("line", "opcode"):
                    DEBUG_TRACE.append((w.tid, frame.f_code.co_name, frame.f_lineno, event, hot))
                if event != "line":
                    if event != "opcode" or not baton.opcodes or not count_ops:
                        # (a code object instrumented for per-bytecode events by an earlier run keeps delivering them)
                        return local
                    # hot frames are traced per bytecode: a window between two
                    # instructions of one source line is a pre-emption point too
                    w.steps += 1
                    baton._cur_steps += 1
                    baton.total_steps += 1
                    if baton.total_steps > MAX_STEPS:
                        baton.overrun = True
                        raise StepBudgetExceeded()
                    if baton.replay is not None:
                        if w.quantum_left is not None:
                            w.quantum_left -= 1
                            if w.quantum_left <= 0:
                                baton._yield(w, frame, hot)
                        return local
                    if baton.rng.random() < p_op:
                        baton._yield(w, frame, hot)
                    return local
                w.steps += 1
                baton._cur_steps += 1
                baton.total_steps += 1
                if baton.total_steps > MAX_STEPS:
                    baton.overrun = True
                    raise StepBudgetExceeded()
                if baton.replay is not None:
                    if w.quantum_left is not None:
                        w.quantum_left -= 1
                        if w.quantum_left <= 0:
                            baton._yield(w, frame, hot)
                    return local
                if w.countdown:
                    w.countdown -= 1
                    if not w.countdown:
                        baton._yield(w, frame, True)
                        return local
                if not hot and baton.p_rare:
                    key = (w.tid, frame.f_code)
                    n = baton.lines.get(key, 0)
                    if n < RARE_LINES:
                        baton.lines[key] = n + 1
                        if baton.rng.random() < baton.p_rare:
                            baton.rare_preemptions += 1
                            baton._yield(w, frame, False, True)
                        return local
                if baton.rng.random() < p:
                    baton._yield(w, frame, hot)
                return local
            return local
        local_hot = make_local(True)
        local_cold = make_local(False)
        # (library frames never ask for per-bytecode events: their code objects are shared with the whole process)
        local_lib_hot = make_local(True, True)
        local_lib_cold = make_local(False, True)

        def budget_only(frame, event, arg):
            # code of the tree libraries html5lib builds on (xml.dom.minidom, xml.etree): no pre-emption there, but its
            # line events count towards the step budget - a tree corrupted by a cross-thread leak (a cycle) makes that
            # code loop for ever, which must end as a liveness violation, not as a wall-clock harness error
            if event == "line":
                baton.total_steps += 1
                if baton.total_steps > MAX_STEPS:
                    baton.overrun = True
                    raise StepBudgetExceeded()
            return budget_only

        def tracer(frame, event, arg):
            if baton.overrun:
                raise StepBudgetExceeded()
            fn = frame.f_code.co_filename
            if not fn.startswith(prefix):
                if not baton.lib or not _lib_file_traced(fn) or frame.f_code.co_name in LIB_SKIP_FUNCS:
                    if fn.startswith(XML_DIR):
                        return budget_only
                    return None
                # library code: traced only when the call comes (through at most 8 library frames) from html5lib, hot if
                # that html5lib frame is
                f = frame.f_back
                for _ in range(8):
                    if f is None:
                        return None
                    ffn = f.f_code.co_filename
                    if ffn.startswith(prefix):
                        baton.lib_frames += 1
                        key = (w.tid, frame.f_code)
                        baton.calls[key] = baton.calls.get(key, 0) + 1
                        return local_lib_hot if frame_is_hot(f) else local_lib_cold
                    if ffn.startswith(SIM_DIR) or not _lib_file_traced(ffn):
                        return None
                    f = f.f_back
                return None
            if fn.startswith(prefix):
                if baton.replay is None:
                    code = frame.f_code
                    key = (w.tid, code)
                    baton.calls[key] = baton.calls.get(key, 0) + 1
                    if baton.sleepers:
                        for o in baton.workers:
                            if o.sleep_code is code and o is not w and o.sleep_until > baton.total_steps:
                                # another thread sleeps inside this very function: stop within its first few lines
                                w.countdown = baton.rng.randint(1, 4)
                                break
                if frame_is_hot(frame):
                    if baton.opcodes:
                        frame.f_trace_opcodes = True
                    return local_hot
                if baton.opcodes_all:
                    frame.f_trace_opcodes = True
                return local_cold
            return None
        return tracer

    def _yield(self, w, frame, hot=None, rare=False):
        if self.overrun:
            return
        others = [o for o in self.workers if not o.done and o is not w]
        if not others:
            return
        self.preemptions += 1
        name = frame.f_code.co_name
        if hot is None:
            hot = frame_is_hot(frame)
        dirty = False
        cur_state = _coldstate.interp_state() if self.base_state is not None else None
        if cur_state != self.base_state and cur_state != self.q_state:
            # this thread is about to be parked while an interpreter-wide setting differs from what the run started
            # with: a window in which other threads see the change.  Remember the code (hot from now on, in this process
            # and in the replay) and keep the thread parked for long.
            dirty = True
            self.dirty_windows += 1
            _learned["codes"].add(frame.f_code)
            if self.replay is None:
                w.sleep_until = self.total_steps + 30000
                w.sleep_code = frame.f_code
                self.sleepers += 1
        if hot:
            self.hot_preemptions += 1
            w.hot_yields += 1
            self.order_digest.append((w.tid, name, frame.f_lineno))
        if (hot or rare) and not dirty:
            if self.replay is None and self.calls.get((w.tid, frame.f_code), 0) <= 3:
                code = frame.f_code
                partner = None
                for o in others:
                    if o.sleep_code is code and o.sleep_until > self.total_steps:
                        partner = o
                        break
                if partner is not None:
                    if self.rng.random() < 0.8:
                        partner.sleep_until = 0
                        partner.sleep_code = None
                        w.sleep_until = self.total_steps + self.rng.choice([3000, 30000])
                        w.sleep_code = code
                        self.sleepers += 1
                        self.rendezvous += 1
                elif self.p_sleep and self.rng.random() < (self.p_sleep if hot else self.p_sleep * 0.05):
                    w.sleep_until = self.total_steps + self.rng.choice([3000, 30000])
                    w.sleep_code = code
                    self.sleepers += 1
                    self.sleeps += 1
        self.sched_sem.release()
        w.sem.acquire()

    def io_point(self):
        """Called by a simulated source from inside read(): the calling thread may block here."""
        w = self._by_thread.get(threading.get_ident())
        if w is None or self.overrun:
            return
        w.steps += 1
        self._cur_steps += 1
        self.total_steps += 1
        if self.replay is not None:
            if w.quantum_left is not None:
                w.quantum_left -= 1
                if w.quantum_left <= 0:
                    self._yield_io(w)
            return
        if self.rng.random() < self.p_io:
            self._yield_io(w)

    def _yield_io(self, w):
        others = [o for o in self.workers if not o.done and o is not w]
        if not others:
            return
        self.preemptions += 1
        self.io_preemptions += 1
        self.order_digest.append((w.tid, "io", 0))
        self.sched_sem.release()
        w.sem.acquire()

    def _run_worker(self, w):
        w.sem.acquire()
        self._by_thread[threading.get_ident()] = w
        sys.settrace(self._make_tracer(w))
        try:
            w.result = w.fn()
        except BaseException as e:  # noqa
            w.error = e
        finally:
            sys.settrace(None)
            w.done = True
            self.sched_sem.release()

    # ---- scheduler side -------------------------------------------------
    def run(self):
        from . import sources
        sources.READ_HOOK[0] = self.io_point
        try:
            return self._run()
        finally:
            sources.READ_HOOK[0] = None

    def _run(self):
        self.base_state = _coldstate.interp_state()
        for w in self.workers:
            w.thread = threading.Thread(target=self._run_worker, args=(w,), name="sim-worker-%d" % w.tid)
            w.thread.daemon = True
            w.thread.start()
        ri = 0
        while True:
            alive = [w for w in self.workers if not w.done]
            if not alive:
                break
            if self.replay is not None:
                w = None
                while ri < len(self.replay):
                    tid, steps = self.replay[ri]
                    ri += 1
                    if tid < len(self.workers) and not self.workers[tid].done:
                        w = self.workers[tid]
                        w.quantum_left = steps if steps >= 0 else None
                        break
                if w is None:
                    w = alive[0]
                    w.quantum_left = None
            else:
                if self.sleepers:
                    awake = [x for x in alive if x.sleep_until <= self.total_steps]
                    if not awake:
                        first = min(alive, key=lambda x: (x.sleep_until, x.tid))
                        first.sleep_until = 0
                        first.sleep_code = None
                        awake = [first]
                    self.sleepers = sum(1 for x in alive if x.sleep_until > self.total_steps)
                else:
                    awake = alive
                if len(awake) == 1:
                    w = awake[0]
                elif self.weights:
                    ws = [self.weights[x.tid] if x.tid < len(self.weights) else 1 for x in awake]
                    r = self.rng.random() * sum(ws)
                    w = awake[-1]
                    for x, wt in zip(awake, ws):
                        r -= wt
                        if r < 0:
                            w = x
                            break
                else:
                    w = awake[self.rng.randrange(len(awake))]
            self._cur_steps = 0
            self.q_state = _coldstate.interp_state()
            w.sem.release()
            if not self.sched_sem.acquire(timeout=WORKER_WALL_S):
                import faulthandler
                faulthandler.dump_traceback(all_threads=True)
                raise RuntimeError("baton: worker %d did not yield within %d s (harness watchdog)" % (w.tid, WORKER_WALL_S))
            # a quantum that ended because the worker finished is "run to completion"
            self.taken.append((w.tid, -1 if w.done else self._cur_steps))
        for w in self.workers:
            w.thread.join(timeout=10)
        return [w.result for w in self.workers], [w.error for w in self.workers]


# ==========================================================================
# the M3 case: threads with private objects

# documents that lean on structures shared by every parser in the process
# (entity trie, charsUntil regex cache, handler dispatch tables, factories)
SHARED_DOCS = [
    ["fish &amp; chips"], ["1 &lt; 2 &gt; 0"], ["&notin;", "&not", "&notit;"], ["&amp;", "&lt;", "&amp;"], ["<a href='?a=1&amp;b=2&copy=3'>"],
    ["&AElig;", "&aacute;", "&zwnj;", "&CounterClockwiseContourIntegral;"], ["&am", "&lt"], ["x &amp y &lt z"], ["&#65;&amp;&#x41;"],
    ["<p title='&quot;&apos;'>", "&nbsp;"], ["<!--c-->", "<!DOCTYPE html>", "<p a=b c='d' e=\"f\">", "</p>"], ["&lang;", "&rang;", "&le;", "&ge;"],
]


# documents that run into limits of the INTERPRETER (settings shared by all threads): a numeric reference with more digits
# than int() converts by default (sys.get_int_max_str_digits(), 4300), the same in hexadecimal
# (no very deep nesting here: 300 nested formatting elements cost millions of traced steps and would need a budget of their own)
LIMIT_DOCS = [
    ["a &#", "0" * 4400, "65; b"], ["<p>x&#", "1" * 4500, ";y"], ["&#x", "0" * 5000, "41;"], ["<a title='&#", "9" * 4350, ";'>t</a>"],
    ["<table><td>&#", "7" * 4400, "; z"], ["<div>" * 40, "&#", "3" * 4400, ";"], ["&#", "2" * 4301, ";"], ["&#", "2" * 4300, ";"],
]


def _stream_op(rng, c12, builder):
    hexdoc, args = rng.choice(c12.BYTE_DOCS)
    pad = b"<!--" + bytes([rng.choice(b"xyzw")]) * rng.randint(900, 3000) + b"-->" if rng.random() < 0.7 else b""
    return {"op": "api_parse_bytes", "hex": (pad + hexdoc).hex(), "args": dict(args), "builder": builder,
            "kind": rng.choice(["simbytes_noseek", "simbytes_noseek", "simbytes_seekraises", "http_plain"]),
            "src": {"reads": [rng.randint(1, 1200) for _ in range(rng.randint(0, 3))], "rest": rng.choice([1 << 30, 1 << 30, 512, 2000])}}


def gen_case(rng):
    from . import c12
    n_threads = rng.choice([2, 2, 3])
    threads = []
    if rng.random() < 0.15:
        # every thread reads its own document from its own simulated non-seekable transport: the threads spend
        # their time blocked inside read() calls, interleaved by the scheduler
        for _ in range(n_threads):
            b = rng.choice(["etree", "etree_full", "dom"])
            threads.append({"ops": [_stream_op(rng, c12, b) for _ in range(rng.randint(1, 2))]})
        return {"prop": "C12", "stream": "M3", "threads": threads, "cold": rng.random() < 0.5,
                "sched_seed": rng.getrandbits(48), "p_hot": rng.choice([0.5, 0.2, 0.05]),
                "p_cold": rng.choice([0.005, 0.001, 0.02]), "opcodes": rng.random() < 0.3}
    if rng.random() < 0.06:
        # one long call, blocked again and again inside the reads of a slow transport, against a BURST of many short calls
        # in another thread (whatever is pooled, rotated or counted per call wraps around while the long call is in flight)
        tb = rng.choice(["etree", "dom"])
        ns = rng.random() < 0.8
        top = rng.random() < 0.7          # through html5lib.parse / parseFragment, or through HTMLParser objects
        hexdoc, args = rng.choice(c12.BYTE_DOCS)
        pad = b"<!--" + b"x" * rng.randint(200, 1500) + b"-->"
        slow = {"op": "top_parse" if top else "api_parse_bytes", "hex": (pad + hexdoc + b"<p>tail<b>of</b>the slow one").hex(), "args": dict(args),
                "builder": tb, "ns": ns, "kind": rng.choice(["simbytes_noseek", "http_plain", "simbytes_seek"]),
                "src": {"reads": [], "rest": rng.choice([1, 3, 16])}}
        n_burst = rng.choice([20, 40, 70, 130])
        burst = []
        for k in range(n_burst):
            doc = [rng.choice(["x", "<p>b%d" % k, "<b>y", "<table><td>z", "<title>t</title>", "&amp;", "<i>%d</i>" % k])]
            if top:
                b = {"op": "top_frag" if rng.random() < 0.2 else "top_parse", "doc": doc, "builder": tb, "ns": ns}
            else:
                b = {"op": "api_parse", "doc": doc, "builder": tb, "ns": ns, "reuse": rng.random() < 0.5}
            burst.append(b)
        threads = [{"ops": [slow]}, {"ops": burst}]
        if n_threads == 3:
            threads.append({"ops": [dict(slow, src={"reads": [], "rest": rng.choice([1, 7])})]})
        rng.shuffle(threads)
        return {"prop": "C12", "stream": "M3", "threads": threads, "cold": rng.random() < 0.5, "sched_seed": rng.getrandbits(48),
                "p_hot": rng.choice([0.2, 0.05]), "p_cold": rng.choice([0.001, 0.005]), "opcodes": False, "p_sleep": 0.0, "p_rare": 0.0,
                "lib": rng.random() < 0.3}
    if rng.random() < 0.08:
        # a storm of DISTINCT encoding labels in one thread (whatever caches resolved labels fills up, rotates or evicts)
        # against a burst of short parses in the others
        import webencodings
        labels = sorted(webencodings.labels.LABELS)
        rng.shuffle(labels)
        storm = []
        for k, lab in enumerate(labels[:rng.choice([100, 140, 200, 200])]):
            if rng.random() < 0.5:
                storm.append({"op": "api_parse_bytes", "hex": (b"<meta charset=" + lab.encode("ascii") + b">").hex(), "args": {}, "builder": "etree"})
            else:
                storm.append({"op": "api_parse_bytes", "hex": b"x".hex(), "args": {rng.choice(["override_encoding", "transport_encoding", "likely_encoding"]): lab},
                              "builder": "etree"})
        threads = [{"ops": storm}]
        for _ in range(n_threads - 1):
            # (as much work as the storm, so that they are still running when the caches have turned over a few times)
            threads.append({"ops": [{"op": "api_parse", "doc": [rng.choice(["x", "y", "&amp;"])], "builder": "etree", "ns": True,
                                     "reuse": rng.random() < 0.5} for _k in range(rng.choice([100, 150, 220]))]})
        order = list(range(len(threads)))
        rng.shuffle(order)
        threads = [threads[k] for k in order]
        fast = rng.choice([3, 10, 30])          # the storm runs that much faster than the others
        weights = [fast if k == 0 else 1 for k in order]
        return {"prop": "C12", "stream": "M3", "threads": threads, "cold": rng.random() < 0.5, "sched_seed": rng.getrandbits(48),
                "p_hot": rng.choice([0.5, 0.2]), "p_cold": rng.choice([0.001, 0.005]), "opcodes": False, "p_sleep": 0.0,
                "p_rare": rng.choice([0.0, 0.1]), "lib": True, "weights": weights}
    if rng.random() < 0.1:
        # the SAME kind of operation with DIFFERENT arguments in every thread, several times: whatever remembers "the last
        # one used" (an encoder, a label, a factory, an option set) is fought over
        kind = rng.choice(["serialize", "serialize", "serialize", "parse_bytes", "builder", "pipeline", "sanitize", "sanitize"])
        styled = ["<p style='color: red; width: 10px; height: 20px'>s\xe9</p>", "<b style='font-weight: bold; margin: 1px 2px; text-align: left'>t</b>",
                  "<a href='http://x.example/?a=1&amp;b=2' style='color: blue; font-size: 12px; border: 1px solid'>u</a>",
                  "<div style='background-color: #fff; padding: 2px 3px; float: left'><i style='color: green; line-height: 2'>w</i></div>",
                  "<svg><a xlink:href='#f' style='fill: red; stroke: blue'>v</a></svg>", "<span style='display: none; color: expression(x)'>x</span>"]
        encs = ["utf-8", "ascii", "iso-8859-1", "koi8-r", "shift_jis", "utf-16le", "windows-1252", "euc-kr", "iso-8859-2"]
        rng.shuffle(encs)
        texts = ["caf\xe9", "\u20ac5", "\u0416\u0438", "\u4e2d\u6587", "<p title='\xfc'>", "\U0001f600", "na\xefve \u2014 x",
                 # what the sanitizer works on: style attributes with several accepted declarations, URLs, SVG
                 "<p style='color: red; width: 10px; height: 20px'>s\xe9</p>", "<b style='font-weight: bold; margin: 1px 2px; text-align: left'>t</b>",
                 "<a href='http://x.example/?a=1&amp;b=2' style='color: blue; font-size: 12px'>u</a>", "<svg><a xlink:href='#f' style='fill: red'>v</a></svg>"]
        for t in range(n_threads):
            ops = []
            for _ in range(rng.randint(3, 6)):
                if kind == "serialize":
                    ops.append({"op": "api_serialize", "doc": list(rng.choice(c12.SER_DOCS)) + [rng.choice(texts)], "builder": rng.choice(["etree", "dom"]),
                                "opts": dict(rng.choice(c12.SER_OPTS)), "encoding": encs[t]})
                elif kind == "parse_bytes":
                    hexdoc, args = c12.BYTE_DOCS[(t * 3 + len(ops)) % len(c12.BYTE_DOCS)]
                    ops.append({"op": "api_parse_bytes", "hex": hexdoc.hex(), "args": dict(args), "builder": rng.choice(["etree", "dom"])})
                elif kind == "sanitize":
                    doc = [styled[(t + len(ops)) % len(styled)], rng.choice(styled)]
                    if rng.random() < 0.5:
                        ops.append({"op": "pipeline", "doc": doc, "builder": rng.choice(["etree", "dom"]),
                                    "filters": ["sanitizer"] + rng.sample(["whitespace", "alphabeticalattributes", "optionaltags"], rng.randint(0, 1)),
                                    "sink": rng.choice(c12.PIPE_SINKS)})
                    else:
                        ops.append({"op": "api_serialize", "doc": doc, "builder": rng.choice(["etree", "dom"]),
                                    "opts": {"sanitize": True, "omit_optional_tags": rng.random() < 0.5}, "encoding": rng.choice([None, "utf-8", "ascii"])})
                elif kind == "builder":
                    b = ["etree", "etree_full", "dom"][t % 3]
                    ops.append(rng.choice([{"op": "get_builder", "builder": b},
                                           {"op": "api_parse", "doc": list(rng.choice(SHARED_DOCS)), "builder": b, "ns": t % 2 == 0}]))
                else:
                    ops.append({"op": "pipeline", "doc": list(rng.choice(c12.SER_DOCS)) + [rng.choice(texts)], "builder": rng.choice(["etree", "dom"]),
                                "filters": rng.sample(c12.PIPE_FILTERS, rng.randint(1, 3)), "sink": rng.choice(c12.PIPE_SINKS)})
            threads.append({"ops": ops})
        return {"prop": "C12", "stream": "M3", "threads": threads, "cold": rng.random() < 0.6, "sched_seed": rng.getrandbits(48),
                "p_hot": rng.choice([0.5, 0.5, 0.2]), "p_cold": rng.choice([0.005, 0.001, 0.02]), "opcodes": rng.random() < 0.7,
                "opcodes_all": rng.random() < 0.1, "p_sleep": rng.choice([0.0, 0.0, 0.4]), "p_rare": rng.choice([0.0, 0.1]),
                "lib": rng.random() < 0.2}
    if rng.random() < 0.08:
        # every thread works on a document that runs into one of the interpreter's limits
        for _ in range(n_threads):
            ops = []
            for _ in range(rng.randint(1, 2)):
                op = {"op": "api_parse", "doc": list(rng.choice(LIMIT_DOCS)), "builder": rng.choice(["etree", "dom"]), "ns": True}
                if rng.random() < 0.3:
                    op["reuse"] = True
                ops.append(op)
            threads.append({"ops": ops})
        return {"prop": "C12", "stream": "M3", "threads": threads, "cold": rng.random() < 0.5,
                "sched_seed": rng.getrandbits(48), "p_hot": rng.choice([0.5, 0.5, 0.2]),
                "p_cold": rng.choice([0.005, 0.02]), "opcodes": rng.random() < 0.5, "opcodes_all": rng.random() < 0.15,
                "p_sleep": rng.choice([0.0, 0.5, 0.8]), "p_rare": rng.choice([0.0, 0.1, 0.3])}
    for _ in range(n_threads):
        ops = []
        for _ in range(rng.randint(1, 3)):
            r = rng.random()
            builder = rng.choice(["etree", "etree", "etree_full", "dom"])
            if r < 0.45:
                if rng.random() < 0.45:
                    doc = list(rng.choice(SHARED_DOCS)) + (list(rng.choice(SHARED_DOCS)) if rng.random() < 0.5 else [])
                else:
                    doc = c12.pick_doc(rng, rng.choice(["setter", "observer", "soup"]))
                op = {"op": "api_parse", "doc": doc[:8], "builder": builder, "ns": rng.random() < 0.8}
                if rng.random() < 0.4:
                    op["reuse"] = True      # a long-lived parser private to this thread
                if rng.random() < 0.3:
                    op["op"] = "api_frag"
                    op["container"] = rng.choice(c12.FRAG_CONTAINERS)
            elif r < 0.52:
                op = {"op": "get_builder", "builder": builder}
                if rng.random() < 0.5:
                    op = {"op": rng.choice(["top_parse", "top_parse", "top_frag"]), "doc": c12.pick_doc(rng, rng.choice(["setter", "observer", "soup"]))[:8],
                          "builder": rng.choice(["etree", "dom"]), "ns": rng.random() < 0.8}
            elif r < 0.62:
                doc = list(rng.choice(c12.SER_DOCS)) if rng.random() < 0.5 else list(rng.choice(SHARED_DOCS))
                op = {"op": "pipeline", "doc": doc, "builder": rng.choice(["etree", "dom"]),
                      "filters": rng.sample(c12.PIPE_FILTERS, rng.randint(0, 3)), "sink": rng.choice(c12.PIPE_SINKS)}
            elif r < 0.85:
                op = {"op": "api_serialize", "doc": list(rng.choice(c12.SER_DOCS)), "builder": rng.choice(["etree", "dom"]),
                      "opts": dict(rng.choice(c12.SER_OPTS)),
                      "encoding": rng.choice([None, "utf-8", "ascii", "iso-8859-1", "koi8-r", "shift_jis", "utf-16le", "windows-1252"])}
                if rng.random() < 0.5:
                    op["doc"] = op["doc"] + [rng.choice(["caf\xe9", "\u20ac5", "\u0416\u0438", "\u4e2d\u6587", "<p title='\xfc'>", "\U0001f600"])]
            else:
                hexdoc, args = rng.choice(c12.BYTE_DOCS)
                op = {"op": "api_parse_bytes", "hex": hexdoc.hex(), "args": dict(args), "builder": builder}
                if rng.random() < 0.6:
                    # delivered by a simulated transport: every read() is a point where this thread may block
                    op["kind"] = rng.choice(["simbytes_noseek", "simbytes_noseek", "simbytes_seekraises", "simbytes_seek", "http_plain"])
                    op["src"] = {"reads": [rng.randint(1, 700) for _ in range(rng.randint(0, 4))],
                                 "rest": rng.choice([1 << 30, 1 << 30, 512, 100])}
                    if rng.random() < 0.5:
                        pad = b"<!--" + b"x" * rng.randint(900, 3000) + b"-->"
                        op["hex"] = (pad + hexdoc).hex()
            ops.append(op)
        threads.append({"ops": ops})
    return {"prop": "C12", "stream": "M3", "threads": threads, "cold": rng.random() < 0.7,
            "sched_seed": rng.getrandbits(48), "p_hot": rng.choice([0.5, 0.5, 0.2, 0.05]),
            "p_cold": rng.choice([0.005, 0.001, 0.02]),
            # half of the runs trace hot frames per bytecode (pre-emption inside a source line)
            "opcodes": rng.random() < 0.5,
            # ... and some trace EVERY html5lib frame per bytecode: a window inside one line of code that nothing marks as
            # touching shared state
            "opcodes_all": rng.random() < 0.08,
            # long suspensions inside rarely executed hot code (see Baton.__init__)
            "p_sleep": rng.choice([0.0, 0.0, 0.4, 0.8]),
            # the first lines of every function a thread executes are pre-empted with this probability even in cold frames
            "p_rare": rng.choice([0.0, 0.03, 0.1, 0.3]),
            # ... and in a third of the runs the pure-Python standard library code that html5lib calls into is pre-emptable too
            "lib": rng.random() < 0.33,
            # threads of different speed in a third of the runs
            "weights": [rng.choice([1, 1, 3, 10]) for _ in range(n_threads)] if rng.random() < 0.33 else None}


def _api_tb(builder):
    from html5lib import treebuilders
    if builder == "etree_full":
        return treebuilders.getTreeBuilder("etree", fullTree=True)
    if builder == "dom":
        return treebuilders.getTreeBuilder("dom")
    return treebuilders.getTreeBuilder("etree")


def run_api_op(op, private=None):
    """One call through html5lib's public API with objects private to the
    caller (`private`: the caller thread's own long-lived parsers, used when
    the op says "reuse").  Never lets an exception escape: exceptions are
    outcomes."""
    import html5lib
    from html5lib import treewalkers, serializer
    from . import c12
    from .canon import canon_tree, canon_errors
    kind = op["op"]
    if kind == "pipeline":
        return c12.run_pipeline_op(op)
    try:
        if kind == "get_builder":
            cls = _api_tb(op["builder"])
            return ("ok", cls.__name__, sorted(k for k in ("documentClass", "elementClass") if hasattr(cls, k)))
        if kind in ("api_parse", "api_frag", "api_parse_bytes"):
            if op.get("reuse") and private is not None:
                pk = (op["builder"], op.get("ns", True))
                p = private.get(pk)
                if p is None:
                    p = private[pk] = html5lib.HTMLParser(tree=_api_tb(op["builder"]), namespaceHTMLElements=op.get("ns", True))
            else:
                p = html5lib.HTMLParser(tree=_api_tb(op["builder"]), namespaceHTMLElements=op.get("ns", True))
            if kind == "api_frag":
                tree = p.parseFragment("".join(op["doc"]), container=op["container"])
            elif kind == "api_parse_bytes":
                payload = bytes.fromhex(op["hex"])
                if op.get("src"):
                    from .sources import ReadLog, make_source
                    payload = make_source(op["kind"], payload, op["src"], ReadLog(len(payload)))
                tree = p.parse(payload, **op["args"])
            else:
                tree = p.parse("".join(op["doc"]))
            return ("ok", canon_tree(tree, op["builder"]), canon_errors(p.errors), p.documentEncoding)
        if kind in ("top_parse", "top_frag"):
            # the module-level convenience functions html5lib.parse / html5lib.parseFragment (what most callers use)
            tbname = "dom" if op["builder"] == "dom" else "etree"
            if "hex" in op:
                payload = bytes.fromhex(op["hex"])
                if op.get("src"):
                    from .sources import ReadLog, make_source
                    payload = make_source(op["kind"], payload, op["src"], ReadLog(len(payload)))
            else:
                payload = "".join(op["doc"])
            if kind == "top_frag":
                tree = html5lib.parseFragment(payload, container=op.get("container", "div"), treebuilder=tbname,
                                              namespaceHTMLElements=op.get("ns", True), **(op.get("args") or {}))
            else:
                tree = html5lib.parse(payload, treebuilder=tbname, namespaceHTMLElements=op.get("ns", True), **(op.get("args") or {}))
            return ("ok", canon_tree(tree, tbname))
        if kind == "api_serialize":
            p = html5lib.HTMLParser(tree=_api_tb(op["builder"]))
            tree = p.parse("".join(op["doc"]))
            out = serializer.serialize(tree, tree=c12.walker_name(op["builder"]), encoding=op.get("encoding"), **op["opts"])
            return ("ok", out)
    except Exception as e:
        return ("raise", type(e).__name__, str(e)[:200])
    raise ValueError(kind)


def _prime_opcode_events(fns, every_frame=False):
    prefix = HTML5LIB_DIR

    def local(frame, event, arg):
        return local

    def tracer(frame, event, arg):
        if frame.f_code.co_filename.startswith(prefix):
            try:
                if every_frame or frame_is_hot(frame):
                    frame.f_trace_opcodes = True
            except Exception:
                pass
            return local
        return None
    old = sys.gettrace()
    sys.settrace(tracer)
    try:
        for fn in fns:
            try:
                fn()
            except BaseException:
                pass
    finally:
        sys.settrace(old)


_WARM_DOC = "<!DOCTYPE html><title>t</title><p a=b>x&amp;y<table><tr><td>z</table><!--c--><svg><g/></svg>"


def warm_up():
    try:
        _warm_up()
    except Exception:
        # best effort: whatever the library raises here will show up again,
        # properly attributed, in the run itself
        pass


def _warm_up():
    import html5lib
    from html5lib import serializer
    for b in ("etree", "etree_full", "dom"):
        tree = html5lib.HTMLParser(tree=_api_tb(b)).parse(_WARM_DOC)
        html5lib.HTMLParser(tree=_api_tb(b)).parseFragment(_WARM_DOC)
        if b != "etree_full":
            serializer.serialize(tree, tree="dom" if b == "dom" else "etree", sanitize=True)
            serializer.serialize(tree, tree="dom" if b == "dom" else "etree", encoding="utf-8")


_ref_memo = {}


def _function_index():
    """qualified name -> function, for every function / method defined in html5lib."""
    idx = {}
    for mname, mod in list(sys.modules.items()):
        if mod is None or not (mname == "html5lib" or mname.startswith("html5lib.")) or ".tests" in mname:
            continue
        for v in list(vars(mod).values()):
            if isinstance(v, types.FunctionType) and v.__module__ == mname:
                idx["%s:%s" % (mname, v.__qualname__)] = v
            elif isinstance(v, type) and v.__module__ == mname:
                for av in vars(v).values():
                    f = getattr(av, "__func__", av)
                    if isinstance(f, types.FunctionType):
                        idx["%s:%s" % (mname, f.__qualname__)] = f
    return idx


def learned_export():
    """What this process has learned about where shared state lives, in a form that can be stored in a replay file."""
    names = sorted(_learned["names"])
    by_code = {f.__code__: k for k, f in _function_index().items()}
    funcs = sorted(by_code[c] for c in _learned["codes"] if c in by_code)
    return names, funcs


def learned_import(names, funcs):
    _learned["names"].update(names or ())
    if funcs:
        idx = _function_index()
        for k in funcs:
            f = idx.get(k)
            if f is not None:
                _learned["codes"].add(f.__code__)


def execute(case):
    import json
    from . import c12
    probes.install()
    probes.reset()
    probes.set_state_fn(None)
    # a replayed case carries what the process that found it knew about shared state (it decides which frames are hot)
    learned_import(case.get("learned_names"), case.get("learned_funcs"))
    stats = {"faults": {}, "probes": {}, "steps": 0, "reach": [], "nontrivial": False, "fault_free": True}
    res = {"ok": True, "oracle": None, "detail": "", "known": None, "stats": stats}
    # defined cache state at the start of every run
    c12.cold_restart()
    if not case["cold"]:
        warm_up()
    else:
        stats["faults"]["cold_restart"] = 1

    def make_fn(tspec):
        def fn():
            private = {}
            return [run_api_op(op, private) for op in tspec["ops"]]
        return fn
    fns = [make_fn(t) for t in case["threads"]]
    opcodes = bool(case.get("opcodes", False))
    opcodes_all = bool(case.get("opcodes_all", False))
    if opcodes or opcodes_all:
        # CPython instruments a code object for per-bytecode events the first time a frame of it asks for them, and the
        # frame that asks may miss its own first events: run the operations once, alone, asking for them, so that in the
        # real run every hot frame delivers them from its first instruction - in this process and in a fresh one alike
        _prime_opcode_events(fns, opcodes_all)
        c12.cold_restart()
        if not case["cold"]:
            warm_up()
    if case.get("quanta") is not None:
        b = Baton(fns, quanta=[tuple(q) for q in case["quanta"]], opcodes=opcodes, opcodes_all=opcodes_all, lib=bool(case.get("lib")))
    else:
        b = Baton(fns, rng=random.Random(case["sched_seed"]), p_hot=case.get("p_hot", 0.5), p_cold=case.get("p_cold", 0.005),
                  opcodes=opcodes, opcodes_all=opcodes_all, p_sleep=case.get("p_sleep", 0.0), p_rare=case.get("p_rare", 0.0), lib=bool(case.get("lib")), weights=case.get("weights"))
    results, errors = b.run()
    res["quanta"] = [list(q) for q in b.taken]
    res["_case"] = case
    stats["steps"] = b.total_steps
    P = probes.PROBES
    P["preemptions"] += b.preemptions
    P["hot_preemptions"] += b.hot_preemptions
    P["io_preemptions"] += b.io_preemptions
    if b.sleeps:
        P["long_suspension_in_rare_hot_code"] += b.sleeps
        stats["faults"]["long_suspension_in_rare_hot_code"] = b.sleeps
    if b.rendezvous:
        P["rendezvous_in_rare_hot_code"] += b.rendezvous
    if b.dirty_windows:
        P["parked_with_interpreter_setting_changed"] += b.dirty_windows
        stats["faults"]["thread_parked_with_interpreter_setting_changed"] = b.dirty_windows
    if b.lib_frames:
        P["preemptable_standard_library_frames"] += b.lib_frames
    if b.rare_preemptions:
        P["preemptions_in_rarely_executed_cold_code"] += b.rare_preemptions
        stats["faults"]["preemption_in_rarely_executed_code"] = b.rare_preemptions
    if b.io_preemptions:
        stats["faults"]["preemption_inside_source_read"] = b.io_preemptions
    if case["cold"] and b.hot_preemptions:
        P["cold_miss_under_contention"] += 1
    stats["faults"]["preemption"] = b.preemptions
    if b.hot_preemptions:
        stats["faults"]["preemption_in_hot_function"] = b.hot_preemptions
    stats["reach"] = [env.digest(b.order_digest)[:16]] if b.order_digest else []
    stats["nontrivial"] = b.hot_preemptions > 0
    stats["fault_free"] = b.preemptions == 0
    res["digest"] = env.digest((b.taken, [[r[:1] + (env.digest(r[1:]),) for r in (rs or [])] for rs in results]))
    if b.overrun:
        return _fail(res, "liveness", "more than %d line/bytecode steps in one threaded run (the same operations need a few thousand "
                     "when run alone)" % MAX_STEPS)
    for tid, e in enumerate(errors):
        if e is not None:
            return _fail(res, "thread-exception", "thread %d died with %s: %s" % (tid, type(e).__name__, e))
    # references: the same op on fresh objects, single-threaded, afterwards;
    # for every 4th case also in a pristine interpreter
    case_key = dict(case)
    case_key.pop("quanta", None)
    pristine = env.digest64(json.dumps(case_key, sort_keys=True)) % 4 == 0
    for tid, (tspec, rs) in enumerate(zip(case["threads"], results)):
        for oi, (op, out) in enumerate(zip(tspec["ops"], rs)):
            key = json.dumps(op, sort_keys=True)
            ref = _ref_memo.get(key) if False else None   # references are recomputed per case (state may be poisoned)
            if ref is None:
                saved = dict(probes.PROBES)
                ref = run_api_op(op)
                probes.PROBES.clear()
                probes.PROBES.update(saved)
                if len(_ref_memo) > 2000:
                    _ref_memo.clear()
                _ref_memo[key] = ref
            if out != ref:
                from .canon import brief
                return _fail(res, "threads", "thread %d op %d (%s): got %s under this interleaving, %s when run alone"
                             % (tid, oi, op["op"], brief(out, 200), brief(ref, 200)))
            if pristine:
                from .zygote import ZYGOTE
                from .canon import brief
                pr = ZYGOTE.request("api|" + key, {"kind": "api", "op": op})
                P["pristine_reference_used"] += 1
                if pr != out:
                    return _fail(res, "pristine", "thread %d op %d (%s): got %s in this process, %s in a pristine interpreter"
                                 % (tid, oi, op["op"], brief(out, 200), brief(pr, 200)))
    stats["probes"] = dict(P)
    res.pop("_case", None)
    return res


def _fail(res, oracle, detail):
    res["stats"]["probes"] = dict(probes.PROBES)
    if res.get("_case") is not None and res.get("quanta") is not None:
        # the exact schedule and the hotness knowledge it was taken under: what the parent and the replay file need
        names, funcs = learned_export()
        ex = dict(res["_case"], quanta=res["quanta"], learned_names=names, learned_funcs=funcs)
        res["explicit_case"] = ex
    res.pop("_case", None)
    res["ok"] = False
    res["oracle"] = oracle
    res["detail"] = detail
    return res


def shrinks(case):
    # 1. make the schedule explicit (the quanta actually taken)
    if case.get("quanta") is None:
        r = execute(case)
        if r.get("explicit_case") is not None:
            yield r["explicit_case"]
        elif r.get("quanta") is not None:
            yield dict(case, quanta=r["quanta"])
        return
    q = case["quanta"]
    threads = case["threads"]
    # drop a thread
    if len(threads) > 2:
        for t in range(len(threads)):
            nt = threads[:t] + threads[t + 1:]
            nq = [[a - (1 if a > t else 0), s] for a, s in q if a != t]
            yield dict(case, threads=nt, quanta=nq)
    # drop ops
    for t, ts in enumerate(threads):
        if len(ts["ops"]) > 1:
            for k in range(len(ts["ops"])):
                yield dict(case, threads=threads[:t] + [dict(ts, ops=ts["ops"][:k] + ts["ops"][k + 1:])] + threads[t + 1:])
    # simpler ops
    for t, ts in enumerate(threads):
        for k, op in enumerate(ts["ops"]):
            if op["op"] != "get_builder" and "builder" in op:
                yield dict(case, threads=threads[:t] + [dict(ts, ops=ts["ops"][:k] + [{"op": "get_builder", "builder": op["builder"]}] + ts["ops"][k + 1:])] + threads[t + 1:])
            if "doc" in op and len(op["doc"]) > 1:
                yield dict(case, threads=threads[:t] + [dict(ts, ops=ts["ops"][:k] + [dict(op, doc=op["doc"][:1])] + ts["ops"][k + 1:])] + threads[t + 1:])
    # fewer pre-emptions: truncate the schedule, merge quanta
    n = len(q)
    if n > 1:
        yield dict(case, quanta=q[:n // 2])
        yield dict(case, quanta=q[:-1])
        for i in range(n - 1):
            if q[i][0] == q[i + 1][0]:
                merged = -1 if (q[i][1] < 0 or q[i + 1][1] < 0) else q[i][1] + q[i + 1][1]
                yield dict(case, quanta=q[:i] + [[q[i][0], merged]] + q[i + 2:])
        for i in range(n):
            yield dict(case, quanta=q[:i] + q[i + 1:])


def describe(case):
    def d(op):
        o = {k: v for k, v in op.items() if k not in ("doc", "hex")}
        if "doc" in op:
            t = "".join(op["doc"])
            o["text"] = t if len(t) <= 100 else t[:100] + "..."
        if "hex" in op:
            o["bytes"] = repr(bytes.fromhex(op["hex"])[:60])
        return o
    q = case.get("quanta")
    return {"stream": "M3", "cold": case["cold"], "threads": [[d(op) for op in t["ops"]] for t in case["threads"]],
            "sched_seed": case.get("sched_seed"), "quanta": q if q is None or len(q) <= 40 else q[:40] + ["...%d more" % (len(q) - 40)]}
