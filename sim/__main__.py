"""CLI: python -m sim check <ID> --tier quick|thorough ; replay <file> ; digests <ID>"""
import argparse
import os
import sys


def main(argv=None):
    ap = argparse.ArgumentParser(prog="sim")
    sub = ap.add_subparsers(dest="cmd", required=True)
    c = sub.add_parser("check")
    c.add_argument("prop")
    c.add_argument("--tier", default=os.environ.get("VERIF_TIER", "quick"))
    c.add_argument("--units", type=int, default=None)
    c.add_argument("--workers", type=int, default=None)
    c.add_argument("--wall", type=float, default=None)
    c.add_argument("--no-selfcheck", action="store_true")
    r = sub.add_parser("replay")
    r.add_argument("path")
    d = sub.add_parser("digests")
    d.add_argument("prop")
    d.add_argument("--units", type=int, default=16)
    s = sub.add_parser("selftest")
    s.add_argument("what", choices=["determinism", "sensitivity", "seeded", "seeds"])
    s.add_argument("--props", default="C05,C06,C12")
    s.add_argument("--units", type=int, default=200)
    s.add_argument("--only", default=None)
    args = ap.parse_args(argv)

    from sim import env, runner
    if args.cmd == "check":
        try:
            return runner.check(args.prop, args.tier, args.workers, args.units, args.wall, not args.no_selfcheck)
        except SystemExit:
            raise
        except BaseException as e:  # harness errors are never reported as violations
            import traceback
            traceback.print_exc()
            print("HARNESS-ERROR: %s: %s" % (type(e).__name__, e))
            return 2
    if args.cmd == "replay":
        rc, _res = runner.replay_file(args.path)
        return rc
    if args.cmd == "digests":
        return runner.digests_cmd(args.prop, env.verif_seed(), args.units)
    if args.cmd == "selftest":
        from sim import selftest
        return selftest.main(args)
    return 2


if __name__ == "__main__":
    sys.exit(main())
