"""Pristine-interpreter reference for C12.

`python -m sim.zygote` is a second CPython interpreter, started by exec with a
PYTHONHASHSEED different from the worker's, that imports html5lib from the
repository and then never executes any operation itself.  For every request
it fork()s a child which evaluates exactly ONE operation from that pristine
state ("a brand-new object in a fresh interpreter"), sends the canonical
outcome back and _exit()s.

Wire format (both directions): 8-byte big-endian length + pickle.
"""
from __future__ import annotations

import os
import pickle
import select
import struct
import subprocess
import sys


def _read_exact(fd, n):
    buf = b""
    while len(buf) < n:
        piece = os.read(fd, n - len(buf))
        if not piece:
            raise EOFError
        buf += piece
    return buf


def _serve():
    from sim import env  # noqa: F401
    from sim import c12, baton
    inp = sys.stdin.fileno()
    out = sys.stdout.fileno()
    while True:
        try:
            head = _read_exact(inp, 8)
        except EOFError:
            return 0
        (n,) = struct.unpack(">Q", head)
        req = pickle.loads(_read_exact(inp, n))
        r, w = os.pipe()
        pid = os.fork()
        if pid == 0:
            os.close(r)
            try:
                if req["kind"] == "api":
                    res = baton.run_api_op(req["op"])
                elif req["kind"] == "walk":
                    res = c12.run_walk_op(req["op"])
                elif req["kind"] == "pipeline":
                    res = c12.run_pipeline_op(req["op"])
                else:
                    cfg = req["cfg"]
                    res = c12.public_outcome(c12.exec_op(c12.new_object(cfg), cfg, req["op"]))
                data = pickle.dumps(("ok", res))
            except BaseException as e:  # noqa
                data = pickle.dumps(("harness-error", "%s: %s" % (type(e).__name__, e)))
            os.write(w, data) if len(data) < 60000 else _write_all(w, data)
            os._exit(0)
        os.close(w)
        chunks = []
        while True:
            piece = os.read(r, 1 << 16)
            if not piece:
                break
            chunks.append(piece)
        os.close(r)
        os.waitpid(pid, 0)
        data = b"".join(chunks)
        _write_all(out, struct.pack(">Q", len(data)) + data)


def _write_all(fd, data):
    view = memoryview(data)
    while view:
        n = os.write(fd, view)
        view = view[n:]


class Zygote(object):
    """Client side, one per worker process, started lazily."""

    def __init__(self):
        self.proc = None
        self.memo = {}
        self.requests = 0
        self.pid_owner = None

    def _start(self):
        from . import env
        envv = dict(os.environ)
        mine = os.environ.get("PYTHONHASHSEED", "")
        envv["PYTHONHASHSEED"] = "31337" if mine != "31337" else "4711"
        envv["VERIF_REPO"] = env.REPO
        self.proc = subprocess.Popen([sys.executable, "-m", "sim.zygote"], cwd=env.VERIF_DIR, env=envv,
                                     stdin=subprocess.PIPE, stdout=subprocess.PIPE, bufsize=0)
        self.pid_owner = os.getpid()

    def request(self, key, req):
        hit = self.memo.get(key)
        if hit is not None:
            return hit
        if self.proc is None or self.pid_owner != os.getpid() or self.proc.poll() is not None:
            self._start()
        data = pickle.dumps(req)
        self.proc.stdin.write(struct.pack(">Q", len(data)) + data)
        self.proc.stdin.flush()
        fd = self.proc.stdout.fileno()
        ready, _, _ = select.select([fd], [], [], 120)
        if not ready:
            raise RuntimeError("zygote did not answer within 120 s (harness watchdog)")
        (n,) = struct.unpack(">Q", _read_exact(fd, 8))
        status, res = pickle.loads(_read_exact(fd, n))
        if status != "ok":
            raise RuntimeError("zygote child failed: %s" % (res,))
        self.requests += 1
        if len(self.memo) > 5000:
            self.memo.clear()
        self.memo[key] = res
        return res

    def close(self):
        if self.proc is not None and self.pid_owner == os.getpid():
            try:
                self.proc.stdin.close()
                self.proc.wait(timeout=5)
            except Exception:
                self.proc.kill()
        self.proc = None


ZYGOTE = Zygote()

if __name__ == "__main__":
    sys.exit(_serve())
