"""Deterministic simulation with fault injection for html5lib-python.

See /verif/DESIGN.md.  Everything here runs the real html5lib imported from
the working tree of /repo (or $VERIF_REPO).
"""
