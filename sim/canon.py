"""Canonical, structural forms of what html5lib returns.

Trees are traversed directly (ElementTree elements / minidom nodes), never via
html5lib's own walkers or testSerializer.  The canonical form is a flat
pre-order tuple of records whose first field is the depth, which determines
nesting uniquely; adjacent text is coalesced.
"""
from __future__ import annotations

import xml.etree.ElementTree as ET
from xml.dom import Node

MAX_NODES = 300000
_ET_COMMENT = ET.Comment
_ET_PI = ET.ProcessingInstruction


def _split_tag(tag):
    if isinstance(tag, str) and tag[:1] == "{":
        ns, _, local = tag[1:].partition("}")
        return ns, local
    return None, tag


def canon_etree(root):
    """root: an ElementTree Element (DOCUMENT_ROOT, html, or DOCUMENT_FRAGMENT)."""
    if root is None:
        return ("none",)
    if hasattr(root, "getroot"):
        root = root.getroot()
    out = []
    # stack of (element, depth); tails are emitted after the subtree, so push
    # a marker
    stack = [("el", root, 0)]
    while stack:
        if len(out) > MAX_NODES:
            # a corrupted (cyclic) structure must not hang the harness
            out.append((0, "too-many-nodes-or-cyclic"))
            break
        kind, el, depth = stack.pop()
        if kind == "tail":
            _text(out, depth, el)
            continue
        tag = el.tag
        if tag is _ET_COMMENT:
            out.append((depth, "comment", el.text))
        elif tag is _ET_PI:
            out.append((depth, "pi", el.text))
        elif tag == "<!DOCTYPE>":
            out.append((depth, "doctype", el.text, el.get("publicId"), el.get("systemId")))
        else:
            ns, local = _split_tag(tag)
            attrs = []
            for k, v in el.attrib.items():
                ans, alocal = _split_tag(k)
                attrs.append((ans, alocal, v))
            out.append((depth, "element", ns, local, tuple(attrs)))
            if el.text:
                _text(out, depth + 1, el.text)
            children = list(el)
            for ch in reversed(children):
                if ch.tail:
                    stack.append(("tail", ch.tail, depth + 1))
                stack.append(("el", ch, depth + 1))
        if el is root and el.tail:
            out.append((depth, "roottail", el.tail))
    return tuple(out)


def _text(out, depth, data):
    if out and out[-1][1] == "text" and out[-1][0] == depth:
        out[-1] = (depth, "text", out[-1][2] + data)
    else:
        out.append((depth, "text", data))


def canon_dom(root):
    """root: a minidom Document, DocumentFragment or Element."""
    if root is None:
        return ("none",)
    out = []
    stack = [(root, 0)]
    # every node of a result belongs to the document that was returned (for a fragment: to the fragment's document)
    owner = root if root.nodeType == Node.DOCUMENT_NODE else getattr(root, "ownerDocument", None)
    foreign_owner = 0
    while stack:
        if len(out) > MAX_NODES:
            out.append((0, "too-many-nodes-or-cyclic"))
            break
        node, depth = stack.pop()
        t = node.nodeType
        if node is not root and getattr(node, "ownerDocument", owner) is not owner:
            foreign_owner += 1
        if t == Node.DOCUMENT_NODE:
            out.append((depth, "document"))
        elif t == Node.DOCUMENT_FRAGMENT_NODE:
            out.append((depth, "fragment"))
        elif t == Node.DOCUMENT_TYPE_NODE:
            out.append((depth, "doctype", node.name, node.publicId, node.systemId))
        elif t == Node.COMMENT_NODE:
            out.append((depth, "comment", node.nodeValue))
        elif t in (Node.TEXT_NODE, Node.CDATA_SECTION_NODE):
            _text(out, depth, node.nodeValue)
            continue
        elif t == Node.ELEMENT_NODE:
            attrs = []
            am = node.attributes
            for i in range(am.length):
                a = am.item(i)
                attrs.append((a.namespaceURI, a.localName or a.name, a.name, a.value))
            out.append((depth, "element", node.namespaceURI, node.localName or node.nodeName,
                        node.nodeName, tuple(attrs)))
        else:
            out.append((depth, "other", t, node.nodeValue))
        for ch in reversed(node.childNodes):
            stack.append((ch, depth + 1))
    if foreign_owner:
        out.append((0, "nodes-owned-by-another-document", foreign_owner))
    return tuple(out)


def canon_tree(tree, builder):
    if builder.startswith("dom"):
        return canon_dom(tree)
    return canon_etree(tree)


def canon_errors(errors):
    """[(pos, code, datavars)] -> [(code, line, col)] as the property states."""
    return [(str(code), pos[0], pos[1]) for pos, code, _vars in errors]


def brief(obj, limit=300):
    s = repr(obj)
    if len(s) > limit:
        s = s[:limit] + "...(%d chars)" % len(s)
    return s


def first_diff(a, b):
    """Index and items of the first difference between two sequences."""
    n = min(len(a), len(b))
    for i in range(n):
        if a[i] != b[i]:
            return "at %d: %s != %s" % (i, brief(a[i], 120), brief(b[i], 120))
    if len(a) != len(b):
        longer = a if len(a) > len(b) else b
        return "length %d != %d; extra %s" % (len(a), len(b), brief(longer[n], 120))
    return "equal"
