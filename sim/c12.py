"""C12 - parser objects are reusable: no state leaks between parses.

Streams
  M1  fault-free histories on a pool of long-lived objects
  M2  fault-injecting histories (strict-mode ParseError, exception from the
      input source, cancellation between tokens, abandoned serializer
      generator, strict serializer error, cold restart of process-wide caches)
  M2sweep  the abort point swept over every token / read index of a setter
  M1aged   M1 histories on objects with a long earlier life (cumulative state)
  M3  2-3 simulated caller threads with private objects under the baton
      scheduler (sim/baton.py)
  M4  the first library calls of a bare interpreter raced by threads, lazily
      imported modules half-initialised at pre-emption (sim/firstcall.py)

Reference model: "a brand-new object" - after every op the outcome of the
reused object must equal the outcome of fresh objects executing the same op;
sampled ops are additionally compared with a pristine interpreter (zygote).
"""
from __future__ import annotations

import json
import sys
import types

from . import env  # noqa: F401
from . import gen, probes, sources
from .canon import canon_tree, canon_errors, first_diff, brief
from .sources import ReadLog, SimBudgetExceeded, SimCancelled, SimIOError, make_source

import html5lib
from html5lib import _inputstream, _tokenizer, html5parser, treebuilders, treewalkers, serializer, _utils
from html5lib.html5parser import ParseError
from html5lib.serializer import SerializeError

PROP = "C12"
BLOCK = 10

PARSER_CONFIGS = [
    {"builder": "etree", "ns": True, "strict": False},
    {"builder": "etree", "ns": True, "strict": False},
    {"builder": "etree_full", "ns": True, "strict": False},
    {"builder": "dom", "ns": True, "strict": False},
    {"builder": "etree", "ns": False, "strict": False},
    {"builder": "dom", "ns": False, "strict": False},
    {"builder": "etree_full", "ns": True, "strict": True},
    {"builder": "etree", "ns": True, "strict": True},
    {"builder": "dom", "ns": True, "strict": True},
]

# ---- document pools --------------------------------------------------------
# state-setters: end (or are aborted) with something pending
SETTERS = [
    ["<table>", " "], ["<table>", "x"], ["<table>", "\n", "x"], ["<table>", "<tr>", " "], ["<table>", "<tbody>", "x", "y"],
    ["<table>", "<b>", "x"], ["<table>", "x", "<td>"], ["<table><tr><td>", "x"], ["<table><caption>", "c"],
    ["<pre>"], ["<pre>", "\n"], ["<listing>"], ["<textarea>"], ["<textarea>", "\n", "x"], ["<pre>", "x"],
    ["<form>"], ["<form>", "x"], ["<form>", "<input>"], ["<table>", "<form>"], ["<div>", "<form a=b>"],
    ["<b>", "<i>", "x"], ["<b>", "x"], ["<a href=x>", "y"], ["<font color=red>", "<nobr>"], ["<b><p>", "x"], ["<em><strong><u>"],
    ["<!DOCTYPE html PUBLIC \"-//W3C//DTD HTML 4.01 Transitional//EN\">", "x"], ["<!DOCTYPE foo>", "x"], ["x"],
    ["<!DOCTYPE html PUBLIC \"-//W3C//DTD XHTML 1.0 Frameset//EN\">"], ["<!DOCTYPE html>", "text"],
    ["<select>", "<option>", "a"], ["<select>"], ["<table>", "<select>"], ["<select><optgroup>"],
    ["<svg>", "<g>", "x"], ["<math>", "<mi>", "x"], ["<svg><foreignObject>", "<p>"], ["<svg>", "<title>", "t"],
    ["<math><annotation-xml encoding=text/html>", "<div>"],
    ["<script>", "x"], ["<script>", "<!--", "<script>"], ["<title>", "t"], ["<style>", "a"], ["<plaintext>", "x"], ["<xmp>", "<b>"],
    ["<noscript>", "<p>"], ["<iframe>", "x"], ["<noframes>", "x"],
    ["<head>"], ["<head>", "<title>", "x"], ["<html a=b>"], ["<body c=d>"], ["<head>", "<meta charset=utf-8>"],
    ["<frameset>"], ["<frameset>", "<frame>"], ["<frameset>", "</frameset>"], ["<html>", "<frameset>", "</frameset>", "</html>"],
    ["<template>", "<td>"], ["<ul>", "<li>", "a", "<li>"], ["<dl><dt>", "a"], ["<p>", "x"], ["<h1>", "<h2>"], ["<button>", "x"],
    ["<ruby>", "<rt>"], ["<applet>", "<b>"], ["<marquee>", "<i>"], ["<object>", "<b>", "x"],
    ["<!--", "x"], ["<!DOCTYPE"], ["<a b='"], ["<div ", "a=b"], ["&am"], ["&#x4"], ["<![CDATA["], ["</"], ["<"],
    ["<table>", "<tr>", "<td>", "x", "</td>", "y"], ["<table>", "<col>", "x"], ["<table>", "<colgroup>", " "],
    ["<body>", "x", "</body>", "y"], ["</html>", "x"], ["<html>", "</html>", "<!--c-->"], ["<a>", "<table>", "<a>"],
]
# state-observers: their tree differs if that state leaked
OBSERVERS = [
    ["<table>", " ", "</table>"], ["<table>", "</table>"], ["<table> </table>"], ["<table>", "<tr>", "</tr>", "</table>"],
    ["<pre>", "\n", "x", "</pre>"], ["\n", "x"], [" ", "x"], ["<pre>", "\n"], ["<textarea>", "\n", "a", "</textarea>"], ["<listing>", "\n", "q"],
    ["<form>", "x", "</form>"], ["<form>", "<form>"], ["<div>", "<form>", "y"], ["<table>", "<form>", "</table>"],
    ["x"], ["text"], ["<p>", "x"], ["<b>", "x"], ["<i>"],
    ["<!DOCTYPE html>", "<p>", "<table>"], ["<p>", "<table>"], ["<!DOCTYPE html>", "x"], ["<!DOCTYPE html>"],
    ["<frameset>"], ["x", "<frameset>"], [" ", "<frameset>"], ["<body>", "<frameset>"], ["<p>", "<frameset>"],
    ["<option>", "a"], ["<select>", "<option>"], ["<td>", "x"], ["<tr>", "<td>"], ["<svg>"], ["<math>"], ["</p>"], ["<br>"],
    ["<html a=b c=d>"], ["<body e=f>"], ["<head>", "<title>", "t", "</title>"], ["<meta charset=koi8-r>", "x"],
    ["<script>", "x", "</script>"], ["<title>", "&amp;", "</title>"], ["<style>", "</style>"], ["<!--c-->"], [""], [" "], ["\n"],
    ["<a>", "x", "<a>"], ["<nobr>", "<nobr>"], ["<li>", "<li>"], ["<table>", "x", "</table>"], ["<table>", "<b>", "</table>", "y"],
]
FRAG_CONTAINERS = ["div", "div", "pre", "table", "tbody", "tr", "td", "select", "title", "textarea", "script", "style", "plaintext",
                   "html", "head", "body", "frameset", "colgroup", "caption", "svg", "math", "form", "p", "option", "template",
                   "listing", "noscript", "xmp", "iframe"]
TAG_STORM_NAMES = ["x%03d" % i for i in range(400)]
STRICT_ERROR_ATOMS = ["</p>", "\x00", "<table>", "x<table>y", "</nosuch>", "<b><p></b>", "&nosuch", "<a b=c b=d>", "<!x>", "</>", "<br/ >",
                      "<div/>", "&#0;", "<p></table>", "<frameset>", "<select><input>", "<!DOCTYPE html>", "</br>", "<image>"]
BYTE_DOCS = [
    (b"<meta charset=koi8-r><p>\xc1\xc2", {}), (b"<!DOCTYPE html>" + b" " * 1100 + b"<meta charset=utf-8>\xc3\xa9", {}),
    (b"<title>x</title>" + b"y" * 1200 + b"<meta charset=shift_jis><p>\x82\xa0", {"likely_encoding": "windows-1251"}),
    (b"\xef\xbb\xbf<p>\xc3\xa9", {}), (b"\xff\xfe<\x00p\x00>\x00", {}), (b"<p>\xe9", {"override_encoding": "iso-8859-2"}),
    (b"<p>\xe9", {"transport_encoding": "koi8-r"}), (b"<table>x" + b" " * 1100 + b"<meta charset=utf-8>\xc3\xa9 y", {}),
    (b"<pre>" + b" " * 1100 + b"<meta charset=euc-jp>\n\xa4\xa2", {}), (b"<form><b>" + b"z" * 1030 + b"<meta charset=big5>\xa4\x40", {}),
    (b"<meta http-equiv=content-type content='text/html; charset=windows-1251'>\xe6", {"default_encoding": "utf-8"}),
    (b"plain \xe9", {"same_origin_parent_encoding": "iso-8859-7"}), (b"\xe9" * 3, {}),
]
SER_OPTS = [
    {}, {"omit_optional_tags": False}, {"quote_attr_values": "always"}, {"quote_attr_values": "spec", "quote_char": "'"},
    {"sanitize": True}, {"strip_whitespace": True}, {"alphabetical_attributes": True}, {"inject_meta_charset": False},
    {"use_trailing_solidus": True, "space_before_trailing_solidus": False}, {"minimize_boolean_attributes": False},
    {"escape_lt_in_attrs": True, "escape_rcdata": True}, {"resolve_entities": False}, {"omit_optional_tags": False, "sanitize": True},
    {"quote_char": "'", "omit_optional_tags": False, "alphabetical_attributes": True, "strip_whitespace": True},
]
SER_DOCS = [
    ["<!DOCTYPE html>", "<p a=b c='d e'>", "x", "</p>"], ["<!--a--b-->"], ["<script>", "a</b", "</script>"], ["<title>", "<b>", "</title>"],
    ["<input disabled>", "<br>", "<a href='x\"y'>"], ["<head>", "<meta charset=ascii>", "<title>t</title>"], ["<pre>", "\n\n", "x"],
    ["<p>", "caf\xe9", "\u20ac", "\U0001f600"], ["<svg>", "<a xlink:href=u>", "x"], ["<table>", "<tr>", "<td>", "x"],
    ["<a href=javascript:x>", "y", "<script>", "z", "</script>"], ["<!DOCTYPE html SYSTEM \"a'b\\\"c\">"], ["<ul>", "<li>", "a", "<li>", "b"],
    ["<b a=\"&lt;\">", " ", "x", "  ", "y"], ["<textarea>", "</x", "</textarea>"], ["<style>", "</b", "</style>"], ["<!---->"], ["x", "&amp;", "<"],
    ["<!DOCTYPE html PUBLIC \"pub\" \"sys\">", "<html lang=en>"], ["<div hidden=hidden>", "<option selected>"],
]
ENCODINGS_OUT = [None, None, "utf-8", "ascii", "koi8-r", "shift_jis", "windows-1252", "utf-16le"]


# --------------------------------------------------------------------------
# objects

def tb_class(builder):
    if builder == "etree":
        return treebuilders.getTreeBuilder("etree")
    if builder == "etree_full":
        return treebuilders.getTreeBuilder("etree", fullTree=True)
    return treebuilders.getTreeBuilder("dom")


def new_parser(cfg):
    return html5lib.HTMLParser(tree=tb_class(cfg["builder"]), strict=cfg["strict"], namespaceHTMLElements=cfg["ns"])


def new_serializer(cfg):
    s = serializer.HTMLSerializer(**cfg["opts"])
    if cfg.get("strict"):
        s.strict = True
    return s


def new_object(cfg):
    if cfg["type"] == "parser":
        return new_parser(cfg)
    return new_serializer(cfg)


def walker_name(builder):
    return "dom" if builder.startswith("dom") else "etree"


# --------------------------------------------------------------------------
# cold restart: "process restarted, only the code survives"

def cold_restart():
    """Every process-wide container the library owns goes back to its
    import-time contents (sim/coldstate.py) - the in-process analogue of
    "process restarted, only the code survives".  Derived from the modules, not
    from a list of known caches, so caches added by a change are reset too."""
    from . import coldstate
    coldstate.restore()


# --------------------------------------------------------------------------
# cancellation seam: a tokenizer that stops before the k-th token

class _CountingTokenizer(_tokenizer.HTMLTokenizer):
    _cancel_at = None
    _seen = None

    def __iter__(self):
        k = self._cancel_at
        n = 0
        seen = self._seen
        for tok in _tokenizer.HTMLTokenizer.__iter__(self):
            if k is not None and n == k:
                raise SimCancelled("cancelled before token #%d" % k)
            n += 1
            if seen is not None:
                seen[0] = n
            yield tok
        if k is not None and n == k:
            raise SimCancelled("cancelled before EOF processing (after token #%d)" % k)


def _with_tokenizer_shim(cancel_at, seen, fn):
    cls = type("SimTokenizer", (_CountingTokenizer,), {"_cancel_at": cancel_at, "_seen": seen})
    shim = types.SimpleNamespace(HTMLTokenizer=cls)
    g = html5parser.__dict__
    saved = g["_tokenizer"]
    g["_tokenizer"] = shim
    try:
        return fn()
    finally:
        g["_tokenizer"] = saved


# --------------------------------------------------------------------------
# stack exhaustion seam: the "failing allocation" of this library - the call
# is made with only L more Python frames available, so that a RecursionError
# is raised *inside* token processing (an abort in the middle of a token)

class _StackExhausted(Exception):
    pass


def _depth():
    f = sys._getframe()
    n = 0
    while f is not None:
        n += 1
        f = f.f_back
    return n


def _with_stack_limit(extra, fn):
    old = sys.getrecursionlimit()
    sys.setrecursionlimit(_depth() + extra)
    try:
        try:
            return fn()
        finally:
            sys.setrecursionlimit(old)
    except RecursionError:
        raise _StackExhausted()


# --------------------------------------------------------------------------
# executing one op on given objects

def _doc_text(op):
    return "".join(op["doc"])


def run_parse_op(parser, cfg, op, log_holder=None):
    """-> outcome tuple.  Never lets an exception escape."""
    kind = op["op"]
    U = _inputstream.HTMLUnicodeInputStream
    saved_chunk = U._defaultChunkSize
    U._defaultChunkSize = op.get("chunk", 10240)
    try:
        kwargs = {}
        if kind == "parse_bytes":
            source = bytes.fromhex(op["hex"])
            kwargs = dict(op.get("args") or {})
            if op.get("src"):
                log = ReadLog(len(source))
                if log_holder is not None:
                    log_holder.append(log)
                source = make_source(op.get("kind", "simbytes_noseek"), source, op["src"], log)
        else:
            source = _doc_text(op)
            if op.get("src"):
                log = ReadLog(len(source))
                if log_holder is not None:
                    log_holder.append(log)
                source = make_source("simtext", source, op["src"], log)
        if "scripting" in op:
            kwargs["scripting"] = op["scripting"]
        probes.set_budget(len(bytes.fromhex(op["hex"])) if kind == "parse_bytes" else len(_doc_text(op)))

        def call():
            if kind == "frag":
                return parser.parseFragment(source, container=op["container"], **kwargs)
            return parser.parse(source, **kwargs)
        try:
            if op.get("cancel_at") is not None or op.get("_count_tokens") is not None:
                tree = _with_tokenizer_shim(op.get("cancel_at"), op.get("_count_tokens"), call)
            elif op.get("stack") is not None:
                tree = _with_stack_limit(op["stack"], call)
            else:
                tree = call()
        except _StackExhausted:
            return ("stack_exhausted",)
        except ParseError as e:
            return ("parse_error", str(e), canon_errors(parser.errors), _doc_encoding(parser))
        except SimIOError as e:
            return ("io_error", str(e))
        except SimCancelled as e:
            return ("cancelled", str(e))
        except SimBudgetExceeded as e:
            return ("budget", str(e))
        except RecursionError:
            return ("raise", "RecursionError", "")
        except Exception as e:
            return ("raise", type(e).__name__, str(e)[:200])
        return ("ok", canon_tree(tree, cfg["builder"]), canon_errors(parser.errors), _doc_encoding(parser), tree)
    finally:
        probes.set_budget(None)
        U._defaultChunkSize = saved_chunk


def _doc_encoding(parser):
    try:
        return parser.documentEncoding
    except Exception as e:
        return "raise:" + type(e).__name__


def canon_tokens(tokens):
    out = []
    for t in tokens:
        item = []
        for k in sorted(t):
            v = t[k]
            if isinstance(v, dict):
                v = tuple((kk, vv) for kk, vv in v.items())
            item.append((k, v))
        out.append(tuple(item))
    return tuple(out)


def _edit_tree(tree, builder):
    """What an application does between two renderings of one document: change, add and remove attributes, change text."""
    if builder.startswith("dom"):
        n = 0
        stack = [tree]
        while stack and n < 30:
            node = stack.pop()
            if node.nodeType == node.ELEMENT_NODE:
                names = [node.attributes.item(i).name for i in range(node.attributes.length)]
                if names:
                    node.setAttribute(names[0], "edited")
                    if len(names) > 1 and ":" not in names[-1]:
                        node.removeAttribute(names[-1])
                node.setAttribute("data-edit", str(n))
                n += 1
            elif node.nodeType == node.TEXT_NODE:
                node.data = node.data + "+"
            stack.extend(node.childNodes)
        return
    root = tree.getroot() if hasattr(tree, "getroot") else tree
    n = 0
    for el in root.iter():
        if isinstance(el.tag, str) and el.tag != "<!DOCTYPE>" and not el.tag.startswith("DOCUMENT_"):
            names = list(el.attrib)
            if names:
                el.attrib[names[0]] = "edited"
                if len(names) > 1:
                    del el.attrib[names[-1]]
            el.set("data-edit", str(n))
            if el.text:
                el.text = el.text + "+"
            n += 1
            if n >= 30:
                break


def run_serialize_op(ser, op, cfg=None):
    """Parse op['doc'] with a fresh parser, walk it, serialize with `ser`."""
    try:
        p = new_parser({"builder": op["builder"], "ns": True, "strict": False})
        tree = p.parse(_doc_text(op))
        walker = treewalkers.getTreeWalker(walker_name(op["builder"]))
        stream = walker(tree)
    except Exception as e:
        return ("setup_raise", type(e).__name__, str(e)[:200])
    try:
        take = op.get("take")
        g = ser.serialize(stream, op.get("encoding"))
        if take is None:
            chunks = list(g)
        else:
            chunks = []
            for _ in range(take):
                try:
                    chunks.append(next(g))
                except StopIteration:
                    break
            g.close()
        joined = (b"" if op.get("encoding") else "").join(chunks)
        # serialize() is a generator: with take == 0 its body never ran, so
        # .errors still describes the previous call by design of the API
        errs = tuple(ser.errors) if take != 0 else ("not-started",)
        if op.get("alt") and take is None and cfg is not None:
            # two lazy results of ONE serializer consumed a chunk at a time in turns (a streaming response and a fragment
            # rendered meanwhile), both with the same output encoding: each must be what a brand-new serializer gives for
            # it alone - no state of one document in the output for the other
            p2 = new_parser({"builder": op["builder"], "ns": True, "strict": False})
            tree2 = p2.parse("".join(op["alt"]))
            sep = b"" if op.get("encoding") else ""
            g1 = ser.serialize(walker(tree), op.get("encoding"))
            g2 = ser.serialize(walker(tree2), op.get("encoding"))
            parts1, parts2 = [], []
            live = [(g1, parts1), (g2, parts2)]
            while live:
                for item in list(live):
                    try:
                        item[1].append(next(item[0]))
                    except StopIteration:
                        live.remove(item)
            ref2 = sep.join(new_serializer(cfg).serialize(walker(tree2), op.get("encoding")))
            return ("ok", joined, errs, take, (sep.join(parts1) == joined and sep.join(parts2) == ref2), sep.join(parts1) + sep.join(parts2))
        if op.get("reser") and take is None and cfg is not None:
            # the application edits the document and renders it again with the SAME serializer and the SAME walker object
            # (`stream` is re-iterable); a brand-new serializer with a brand-new walker over the edited tree is the reference
            _edit_tree(tree, op["builder"])
            sep = b"" if op.get("encoding") else ""
            again = sep.join(ser.serialize(stream, op.get("encoding")))
            errs2 = tuple(ser.errors)
            ref_ser = new_serializer(cfg)
            ref = sep.join(ref_ser.serialize(walker(tree), op.get("encoding")))
            return ("ok", joined, errs, take, (again == ref and errs2 == tuple(ref_ser.errors)), again)
        return ("ok", joined, errs, take)
    except SerializeError:
        return ("serialize_error", tuple(ser.errors))
    except Exception as e:
        return ("raise", type(e).__name__, str(e)[:200])


def start_serialize(ser, op):
    """serialize() is lazy: the caller may create the generator now and consume it later (a streaming response body).
    -> ("started", generator) | ("setup_raise", ...) | ("raise", ...)"""
    try:
        p = new_parser({"builder": op["builder"], "ns": True, "strict": False})
        tree = p.parse(_doc_text(op))
        walker = treewalkers.getTreeWalker(walker_name(op["builder"]))
        stream = walker(tree)
    except Exception as e:
        return ("setup_raise", type(e).__name__, str(e)[:200])
    try:
        return ("started", ser.serialize(stream, op.get("encoding")))
    except SerializeError:
        return ("serialize_error", tuple(ser.errors))
    except Exception as e:
        return ("raise", type(e).__name__, str(e)[:200])


def finish_serialize(ser, op, g):
    """Consume a generator created earlier; same outcome shape as run_serialize_op."""
    try:
        joined = (b"" if op.get("encoding") else "").join(list(g))
        return ("ok", joined, tuple(ser.errors), None)
    except SerializeError:
        return ("serialize_error", tuple(ser.errors))
    except Exception as e:
        return ("raise", type(e).__name__, str(e)[:200])


def run_walk_op(op):
    """walk_twice: a walker object iterated twice gives the same stream, and a
    second walker object over the same tree as well."""
    try:
        p = new_parser({"builder": op["builder"], "ns": True, "strict": False})
        tree = p.parse(_doc_text(op))
    except Exception as e:
        # the parse that provides the tree raised (e.g. an assertion inside tree
        # construction for some inputs): nothing to walk; a brand-new object does
        # the same, so this is an outcome to compare, not a walker failure
        return ("setup_raise", type(e).__name__, str(e)[:200])
    try:
        cls = treewalkers.getTreeWalker(walker_name(op["builder"]))
        w = cls(tree)
        toks = list(w)
        a = canon_tokens(toks)
        b = canon_tokens(list(w))
        c = canon_tokens(list(cls(tree)))
        # a consumer may change the tokens it was given (that is how filters are written): the next walk must not see it
        for t in toks:
            if isinstance(t.get("data"), dict):
                t["data"][(None, "data-poke")] = "1"
            elif isinstance(t.get("data"), str):
                t["data"] = t["data"] + "<poke>"
            if "name" in t:
                t["name"] = str(t["name"]) + "-poked"
        d = canon_tokens(list(cls(tree)))
        # ... and the application may change the TREE and walk it again with the walker object it already has
        _edit_tree(tree, op["builder"])
        e1 = canon_tokens(list(w))
        e2 = canon_tokens(list(cls(tree)))
        return ("ok", a, b == a, c == a and d == a and e1 == e2, e2)
    except Exception as e:
        return ("raise", type(e).__name__, str(e)[:200])


PIPE_FILTERS = ["sanitizer", "sanitizer_custom", "whitespace", "optionaltags", "alphabeticalattributes", "inject_meta_charset", "lint"]
PIPE_SINKS = ["tokens", "tokens", "sax", "pprint", "serialize"]


class _SaxRecorder(object):
    """A minimal SAX ContentHandler that records the events it receives."""

    def __init__(self):
        self.events = []

    def __getattr__(self, name):
        def rec(*args):
            def norm(a):
                if hasattr(a, "items") and not isinstance(a, dict):
                    return tuple(sorted((k, v) for k, v in a.items()))
                if isinstance(a, dict):
                    return tuple(sorted(a.items()))
                return a
            self.events.append((name,) + tuple(norm(a) for a in args))
        return rec


def run_pipeline_op(op):
    """parse -> tree walker -> a chain of filters -> a sink (token list, SAX
    events, pprint text or the serializer), all with objects created for this
    call: the result can only differ from a fresh interpreter's through
    process-wide state."""
    try:
        p = new_parser({"builder": op["builder"], "ns": True, "strict": False})
        if op.get("container"):
            tree = p.parseFragment(_doc_text(op), container=op["container"])
        else:
            tree = p.parse(_doc_text(op))
    except Exception as e:
        return ("setup_raise", type(e).__name__, str(e)[:200])
    try:
        from html5lib.filters import (sanitizer as f_san, whitespace as f_ws, optionaltags as f_opt, alphabeticalattributes as f_alpha,
                                      inject_meta_charset as f_meta, lint as f_lint)
        from html5lib import treeadapters
        stream = treewalkers.getTreeWalker(walker_name(op["builder"]))(tree)
        for name in op.get("filters") or []:
            if name == "sanitizer":
                stream = f_san.Filter(stream)
            elif name == "sanitizer_custom":
                stream = f_san.Filter(stream, allowed_elements=frozenset([("http://www.w3.org/1999/xhtml", "p"),
                                                                          ("http://www.w3.org/1999/xhtml", "b")]),
                                      allowed_attributes=frozenset([(None, "title")]), allowed_protocols=frozenset(["https"]))
            elif name == "whitespace":
                stream = f_ws.Filter(stream)
            elif name == "optionaltags":
                stream = f_opt.Filter(stream)
            elif name == "alphabeticalattributes":
                stream = f_alpha.Filter(stream)
            elif name == "inject_meta_charset":
                stream = f_meta.Filter(stream, "utf-8")
            elif name == "lint":
                stream = f_lint.Filter(stream)
        sink = op.get("sink", "tokens")
        if sink == "sax":
            from html5lib.treeadapters import sax as sax_adapter
            h = _SaxRecorder()
            sax_adapter.to_sax(stream, h)
            return ("ok", tuple(h.events))
        if sink == "pprint":
            return ("ok", treewalkers.pprint(stream))
        if sink == "serialize":
            return ("ok", serializer.HTMLSerializer(omit_optional_tags=False).render(stream))
        return ("ok", canon_tokens(list(stream)))
    except Exception as e:
        return ("raise", type(e).__name__, str(e)[:200])


def public_outcome(out):
    """What is compared between reused and fresh objects."""
    if out[0] == "ok" and len(out) == 5:
        return out[:4]
    if out[0] in ("io_error", "cancelled", "stack_exhausted"):
        # after an abort from outside only the propagated exception is compared
        return out[:2]
    return out


def exec_op(obj, cfg, op, log_holder=None):
    kind = op["op"]
    if kind in ("parse", "frag", "parse_bytes"):
        return run_parse_op(obj, cfg, op, log_holder)
    if kind == "serialize":
        return run_serialize_op(obj, op, cfg)
    if kind == "walk":
        return run_walk_op(op)
    if kind == "pipeline":
        return run_pipeline_op(op)
    if kind == "cold_restart":
        cold_restart()
        return ("ok",)
    raise ValueError(kind)


def end_state_signature(parser):
    try:
        phases = parser.phases
        ph = parser.phase.__class__.__name__ if getattr(parser, "phase", None) is not None else "none"
        tree = parser.tree
        depth = len(tree.openElements)
        return (ph, bool(getattr(parser, "framesetOK", True)), getattr(parser, "compatMode", "?"),
                bool(phases["inTableText"].characterTokens),
                phases["inBody"].processSpaceCharacters.__name__ == "processSpaceCharactersDropNewline",
                tree.formPointer is not None, len(tree.activeFormattingElements) > 0, bool(getattr(parser, "innerHTML", False)),
                0 if depth == 0 else (1 if depth < 3 else (2 if depth < 6 else 3)))
    except Exception as e:
        return ("sig-error", type(e).__name__)


def handler_cache_sizes(parser):
    full = 0
    for ph in parser.phases.values():
        try:
            c = ph._Phase__startTagCache
            if len(ph.startTagHandler) >= 10 and len(c) >= int(len(ph.startTagHandler) * 1.1):
                full += 1
        except AttributeError:
            pass
    return full


# --------------------------------------------------------------------------
# generation

def _soup(rng, n=12):
    return gen.soup(rng, surrogates_ok=False, max_atoms=n, long_prob=0.0)


def _tag_storm(rng):
    k = rng.randint(150, 260)
    names = rng.sample(TAG_STORM_NAMES, k)
    atoms = []
    for nm in names:
        atoms.append("<%s>" % nm)
        if rng.random() < 0.5:
            atoms.append("</%s>" % nm)
    return atoms


def pick_doc(rng, role):
    r = rng.random()
    if role == "setter":
        if r < 0.7:
            return list(rng.choice(SETTERS))
        if r < 0.8:
            return _tag_storm(rng)
        return _soup(rng)
    if role == "observer":
        if r < 0.8:
            return list(rng.choice(OBSERVERS))
        return _soup(rng, 6)
    return _soup(rng)


def _gen_parse_op(rng, obj_i, cfg, role, faulty):
    doc = pick_doc(rng, role)
    r = rng.random()
    if r < 0.12 and role != "observer":
        hexdoc, args = rng.choice(BYTE_DOCS)
        op = {"op": "parse_bytes", "obj": obj_i, "hex": hexdoc.hex(), "args": dict(args)}
        if rng.random() < 0.5:
            op["kind"] = rng.choice(["simbytes_seek", "simbytes_noseek", "simbytes_seekraises"])
            op["src"] = {"reads": [rng.randint(1, 5) for _ in range(rng.randint(0, 5))], "rest": rng.choice([1, 7, 1 << 30])}
    elif r < 0.4:
        op = {"op": "frag", "obj": obj_i, "doc": doc, "container": rng.choice(FRAG_CONTAINERS)}
        if rng.random() < 0.06:
            op["container"] = None      # documented as "default to div"; whatever it does, it must not depend on history
    else:
        op = {"op": "parse", "obj": obj_i, "doc": doc}
    if rng.random() < 0.15:
        op["scripting"] = rng.random() < 0.5
    if cfg["strict"] and op["op"] != "parse_bytes":
        # strict aborts need an error-free prefix to get anywhere
        if rng.random() < 0.7:
            body = op["doc"]
            op["doc"] = (["<!DOCTYPE html>"] if op["op"] == "parse" else []) + body
            if faulty and rng.random() < 0.6:
                pos = rng.randint(0, len(op["doc"]))
                op["doc"] = op["doc"][:pos] + [rng.choice(STRICT_ERROR_ATOMS)] + op["doc"][pos:]
    return op


def _count(cfg, op):
    """Dry run on fresh objects: number of tokens and of reads (generation
    time only; the explicit case stores the chosen indices)."""
    seen = [0]
    holder = []
    dry = dict(op, _count_tokens=seen)
    if "src" not in dry and dry["op"] != "parse_bytes":
        dry["src"] = {"reads": [], "rest": dry.get("_rest", 1 << 30)}
    run_parse_op(new_parser(dict(cfg, strict=False)), cfg, dry, holder)
    reads = holder[0].reads if holder else 0
    return seen[0], reads


def _add_fault(rng, cfg, op):
    """Turn a parse op into a faulty one (M2)."""
    r = rng.random()
    if op["op"] == "parse_bytes":
        if "src" not in op:
            op["kind"] = rng.choice(["simbytes_seek", "simbytes_noseek"])
            op["src"] = {"reads": [], "rest": rng.choice([1, 2, 3, 1 << 30])}
        op["chunk"] = rng.choice([1, 2, 5, 10240])
        ntok, nreads = _count(cfg, op)
        if r < 0.5 and nreads:
            op["src"] = dict(op["src"], fail_at=rng.randint(0, nreads))
            return "io"
        op["cancel_at"] = rng.randint(0, max(0, ntok))
        return "cancel"
    if r < 0.12 and op["op"] != "parse_bytes":
        # only L more Python frames: RecursionError somewhere inside token processing
        op["stack"] = rng.randint(4, 16)
        return "stack"
    if r < 0.45:
        ntok, _ = _count(cfg, op)
        # bias towards the end of the document: right after the token that
        # created the in-flight state
        k = ntok if rng.random() < 0.4 else rng.randint(0, max(0, ntok))
        op["cancel_at"] = k
        return "cancel"
    if r < 0.9:
        op["chunk"] = rng.choice([1, 1, 2, 3, 5])
        op["src"] = {"reads": [], "rest": rng.choice([1, 2, 4, 1 << 30])}
        _ntok, nreads = _count(cfg, op)
        k = max(0, nreads - 1) if rng.random() < 0.4 else rng.randint(0, max(0, nreads))
        op["src"] = dict(op["src"], fail_at=k)
        return "io"
    return None


ALIAS_LABELS = ["koi8-r", "shift_jis", "iso-8859-2", "utf-8", "windows-1251", "euc-kr", "big5", "macintosh"]
ALIAS_BODY = {"koi8-r": b"\xc1\xc2\xd7", "shift_jis": b"\x82\xa0", "iso-8859-2": b"\xb1\xe6", "utf-8": b"\xc3\xa9", "windows-1251": b"\xe6\xe8",
              "euc-kr": b"\xb0\xa1", "big5": b"\xa7A", "macintosh": b"\x8e\x9f"}


def _alias_variants(label, for_arg):
    out = [label + "\x0b", label + "\x1c", label + "\x1f", "\x0b" + label, label.upper(), " " + label + " ", label.capitalize(),
           label + "\x0c", label.replace("-", "_") if "-" in label else label + "x"]
    if for_arg:
        out += [label + "\xa0", label + "\u2003", label.replace("k", "\u212a") if "k" in label else label + "\x85",
                label.replace("s", "\u017f") if "s" in label else label + "\u200b"]
    return out


def gen_alias_pair(rng, n_parsers):
    """Two parses whose encoding labels differ only by something a cache key
    might fold away (case, padding, look-alike characters): first the clean
    label, then the variant."""
    label = rng.choice(ALIAS_LABELS)
    body = b"<p>" + ALIAS_BODY[label] + b" x"
    via_arg = rng.random() < 0.4
    variant = rng.choice(_alias_variants(label, via_arg))
    ops = []
    for lab in (label, variant):
        if via_arg:
            name = rng.choice(["likely_encoding", "default_encoding", "same_origin_parent_encoding", "transport_encoding"])
            ops.append({"op": "parse_bytes", "obj": rng.randrange(n_parsers), "hex": body.hex(), "args": {name: lab}})
        else:
            doc = b'<meta charset="' + lab.encode("ascii") + b'">' + body
            ops.append({"op": "parse_bytes", "obj": rng.randrange(n_parsers), "hex": doc.hex(), "args": {}})
    return ops


# ---- twin documents: members of one family have the same elements and differ in a detail the parser's decision depends on
# (an attribute value or its presence, the case of a name, a public identifier, one intervening element).  A memo or cache
# on a long-lived object keyed by less than what the decision depends on answers the second member with the first one's
# verdict.
TWIN_FAMILIES = [
    ["<math><annotation-xml encoding=text/html><p>x</p><b>y", "<math><annotation-xml encoding=MathML-Content><p>x</p><b>y",
     "<math><annotation-xml><p>x</p><b>y", "<math><annotation-xml encoding=application/xhtml+xml><p>x</p>",
     "<math><annotation-xml encoding='TEXT/HTML'><apply><ci>a", "<math><annotation-xml encoding=MathML-Content><apply><ci>a"],
    ["<table><input type=hidden><tr>", "<table><input type=text><tr>", "<table><input><tr>", "<table><input TYPE=HIDDEN>x",
     "<table><input type=' hidden'>x"],
    ["<p><input type=hidden><frameset>", "<p><input type=text><frameset>", "<p><input><frameset>"],
    ["<svg><font color=red>x</font>y", "<svg><font>x</font>y", "<svg><font size=1>x", "<svg><font face=a>x", "<math><font id=a>x",
     "<svg><font COLOR=red>x"],
    ["<svg><foreignObject><p>x", "<svg><desc><p>x", "<svg><title><p>x", "<svg><g><p>x", "<svg><foreignobject><b>x", "<svg><switch><p>x"],
    ["<math><mi><p>x", "<math><mo><p>x", "<math><mtext><b>x", "<math><mrow><p>x", "<math><ms><mglyph>", "<math><mi><mglyph>",
     "<math><mi><malignmark>", "<math><mrow><mglyph>"],
    ["<!DOCTYPE html><p><table>", '<!DOCTYPE html PUBLIC "-//W3C//DTD HTML 4.01 Transitional//EN"><p><table>',
     '<!DOCTYPE html PUBLIC "-//W3C//DTD HTML 4.01 Transitional//EN" "http://www.w3.org/TR/html4/loose.dtd"><p><table>',
     '<!DOCTYPE html SYSTEM "http://www.ibm.com/data/dtd/v11/ibmxhtml1-transitional.dtd"><p><table>', "<p><table>",
     '<!DOCTYPE html PUBLIC "-//W3C//DTD XHTML 1.0 Frameset//EN"><p><table>', "<!DOCTYPE htm><p><table>"],
    ["<svg viewbox=1 attributename=a>", "<svg viewBox=1>", "<math definitionurl=x>", "<svg xlink:href=a xml:lang=b>", "<math xlink:href=a>",
     "<svg><a xlink:href=a>", "<svg definitionurl=x>"],
    ["<body a=1><body b=2>", "<body a=1><body a=2>", "<html a=1><html b=2>x", "<body><body a=1>"],
    ["<meta charset=utf-8>x", "<meta http-equiv=content-type content='text/html; charset=koi8-r'>x", "<meta content=x>y"],
    ["<a b=1 b=2>", "<a b=1 c=2>", "<a B=1 b=2>", "<a b=1 c=2 b=3>"],
    ["<p><b><i>x</b>y", "<p><b><i>x</i>y", "<p><b><i>x</p>y", "<p><b><i>x</a>y"],
    ["<select><input>", "<select><textarea>", "<select><keygen>", "<select><b>", "<select><select>"],
    ["<h1><h2>x", "<h1><h1>x", "<h1><div><h2>", "<h1><b><h6>"],
    ["<li><li>", "<li><div><li>", "<li><address><li>", "<li><p><li>", "<dd><dt>", "<dd><div><dt>", "<li><ul><li>"],
    ["<template><td>x", "<template><tr>x", "<template><col>x", "<template><b>x", "<template><caption>x"],
    ["<form><form>x", "<form><div><form>", "<template><form><form>", "<form></form><form>"],
    ["<a href=x><a href=y>", "<a href=x><b><a>", "<nobr><nobr>", "<nobr><b><nobr>", "<a><table><a>"],
    ["<pre>\nx", "<pre>x\n", "<textarea>\nx", "<listing>\nx", "<pre>\n\nx", "<pre><b>\nx"],
    ["<a href='?a=b&amp=c'>", "<a href='?a=b&amp;c'>", "x&ampy", "<a href='?x&notit;'>", "x&notit;", "<a href='?x&not;y'>"],
    ["<table><caption><td>", "<table><colgroup><td>", "<table><thead><td>", "<table><tr><td>", "<table><td>"],
    ["<button><button>", "<button><p><button>", "<button><div></button>x"],
    ["<ruby><rb><rt>", "<ruby><rt><rp>", "<ruby><rtc><rt>", "<ruby><b><rt>"],
    ["<script type=text/plain><b></script>x", "<script><b></script>x", "<script src=a></script>x"],
    ["<object><b><p></object>x", "<applet><b><p></applet>x", "<marquee><b><p></marquee>x", "<div><b><p></div>x"],
    ["<frameset><frame><noframes>x", "<frameset><frameset>", "<frameset></frameset><noframes>x", "<frameset>x"],
    ["<br></br>", "</br>", "<p></p></p>", "</p>"],
    ["<image src=a>", "<img src=a>", "<svg><image src=a>", "<svg><img src=a>"],
    ["<option><optgroup>", "<optgroup><option><optgroup>", "<select><option><optgroup>", "<option><p><option>"],
]


# the same for serializers: documents that differ in what a serializer decision depends on (the attribute VALUE for the
# choice of quotes, the NEXT token for the omission of an optional tag, element AND attribute for boolean minimisation,
# the element for escaping of its text, the characters for what the output encoding can represent)
SER_TWIN_FAMILIES = [
    ["<a title=x>t</a>", "<a title='x y'>t</a>", "<a title='x\"y'>t</a>", "<a title=\"x'y\">t</a>", "<a title=\"x'y&quot;z\">t</a>", "<a title=''>t</a>",
     "<a title='a=b'>t</a>", "<a title='a>b'>t</a>", "<a title='a`b'>t</a>", "<a title='a&amp;b'>t</a>", "<a title='a<b'>t</a>", "<a title='x\ty'>t</a>"],
    ["<p>a<p>b", "<p>a</p>text", "<p>a<div>b</div>", "<p>a</p><!--c-->", "<div><p>a</div>", "<p>a<address>b", "<p>a<span>b</span>"],
    ["<ul><li>a<li>b</ul>", "<ul><li>a</li>x<li>b</ul>", "<ul><li>a</ul>", "<dl><dt>a<dd>b</dl>", "<dl><dt>a<dt>b</dl>", "<dl><dd>a</dd>x</dl>"],
    ["<table><tr><td>a<td>b</table>", "<table><tr><td>a</td>x</table>", "<table><tbody><tr><td>a</table>", "<table><thead><tr><th>a<tbody><tr><td>b</table>",
     "<table><colgroup><col><tr><td>a</table>", "<table><colgroup> <col></table>", "<table><tfoot><tr><td>a</table>", "<table><caption>c</caption><tr><td>a</table>"],
    ["<html><head><title>t</title></head><body>x", "<html><!--c--><head></head><body>x", "<html><head></head><body><!--c-->x", "<html><head></head><body> x",
     "<html><head><!--c--></head><body>x", "<html><head> </head><body>x", "<html lang=en><head></head><body class=a>x"],
    ["<input disabled=disabled>", "<input disabled=x>", "<input disabled>", "<div disabled=disabled>", "<option selected=selected>", "<a selected=selected>",
     "<input checked=checked disabled=disabled>", "<img ismap=ismap>", "<input DISABLED=disabled>", "<td nowrap=nowrap>", "<input disabled=''>"],
    ["<script>a<b</script>", "<style>a&b</style>", "<textarea>a<b</textarea>", "<title>a&amp;b</title>", "<p>a&amp;b&lt;c", "<xmp>a<b</xmp>",
     "<script>a&amp;b</script>", "<p>a&gt;b", "<plaintext>a<b", "<iframe>a<b</iframe>", "<noscript>a<b</noscript>"],
    ["<br>x", "<img src=a>x", "<p><br></p>", "<svg><br/></svg>", "<input>x", "<hr>x", "<svg><g/>x</svg>", "<wbr>x"],
    ["<p>caf\xe9", "<p>\u20ac5", "<p title=\xe9>x", "<p>\u0416", "<p>\U0001f600", "<p>plain", "<p>&nbsp;x", "<p title='\u20ac'>x"],
    ["<pre> a  b </pre>", "<p> a  b </p>", "<textarea> a  b </textarea>", "<b> </b>", "<p>a\n\nb", "<pre>\n\na</pre>", "<script> a  b </script>", "<p>\t a"],
    ["<!DOCTYPE html>", "<!DOCTYPE html PUBLIC \"a\" \"b\">", "<!DOCTYPE html SYSTEM \"a'b\">", "<!DOCTYPE html SYSTEM 'a\"b'>", "<!DOCTYPE html PUBLIC \"a\">", "<!DOCTYPE>"],
    ["<head><meta charset=ascii><title>t</title>", "<head><meta http-equiv=content-type content='text/html; charset=ascii'>", "<head><title>t</title>",
     "<head><meta name=x content=y>", "<head><meta charset=ascii><meta charset=utf-8>", "<meta charset=x>"],
    ["<a href=javascript:x>y</a>", "<a href=http://x/>y</a>", "<a href=' javascript:x'>y</a>", "<a href=data:text/html,x>y</a>", "<a href=mailto:a@b>y</a>",
     "<img src=javascript:x>", "<a xlink:href=javascript:x>y</a>", "<a href=HTTP://x>y</a>"],
    ["<b style='color:red'>x</b>", "<b style='background:url(x)'>x</b>", "<b style='color:expression(x)'>x</b>", "<b style=''>x</b>", "<b style='width:1px;color:blue'>x</b>"],
    ["<svg><a xlink:href=u>x</a></svg>", "<svg><a href=u>x</a></svg>", "<math><mi xlink:href=u>x</mi></math>", "<svg xml:lang=en>x</svg>", "<svg viewBox=1>x</svg>"],
    ["<!--a-->", "<!--a--b-->", "<!---->", "<!--a-b-->", "<!-- - -->", "<!--[if IE]>x<![endif]-->"],
]


def gen_ser_twin_pair(rng, oi):
    fam = rng.choice(SER_TWIN_FAMILIES)
    a, b = rng.sample(fam, 2)
    builder = rng.choice(["etree", "dom"])
    enc = rng.choice(ENCODINGS_OUT)
    ops = []
    for text in (a, b):
        ops.append({"op": "serialize", "obj": oi, "doc": [text], "builder": builder if rng.random() < 0.8 else rng.choice(["etree", "dom"]),
                    "encoding": enc if rng.random() < 0.7 else rng.choice(ENCODINGS_OUT)})
    if rng.random() < 0.3:
        ops[0]["defer"] = True       # created, then the second one runs, then the first one is consumed
    if rng.random() < 0.3:
        ops.append(dict(ops[0]))
    return ops


def gen_twin_pair(rng, n_parsers, cfgs):
    fam = rng.choice(TWIN_FAMILIES)
    a, b = rng.sample(fam, 2)
    parsers = [i for i in range(len(cfgs)) if cfgs[i]["type"] == "parser"]
    oi = rng.choice(parsers)
    ops = []
    frag = rng.random() < 0.2
    for text in (a, b):
        if frag:
            ops.append({"op": "frag", "obj": oi, "doc": [text], "container": "div"})
        else:
            ops.append({"op": "parse", "obj": oi, "doc": [text]})
    if rng.random() < 0.3:
        # ... and the first one again: a memo filled by the second member
        ops.append(dict(ops[0]))
    return ops


def gen_history(rng, stream):
    faulty = stream == "M2"
    n_parsers = rng.randint(1, 3)
    objs = []
    for _ in range(n_parsers):
        cfg = dict(rng.choice(PARSER_CONFIGS), type="parser")
        if not faulty and cfg["strict"] and rng.random() < 0.7:
            cfg["strict"] = False
        objs.append(cfg)
    n_ser = rng.choice([0, 0, 1, 1, 2])
    for _ in range(n_ser):
        objs.append({"type": "serializer", "opts": dict(rng.choice(SER_OPTS)), "strict": faulty and rng.random() < 0.4})
    ops = []
    n_ops = rng.randint(2, 12)
    pending_observer = None
    for _ in range(n_ops):
        r = rng.random()
        if r < 0.04:
            ops.append({"op": "cold_restart"})
            continue
        if r < 0.08:
            ops.append({"op": "walk", "doc": pick_doc(rng, "soup"), "builder": rng.choice(["etree", "dom"])})
            continue
        if r < 0.16:
            doc = list(rng.choice(SER_DOCS)) if rng.random() < 0.5 else pick_doc(rng, "soup")
            op = {"op": "pipeline", "doc": doc, "builder": rng.choice(["etree", "dom"]),
                  "filters": rng.sample(PIPE_FILTERS, rng.randint(0, 3)), "sink": rng.choice(PIPE_SINKS)}
            if rng.random() < 0.2:
                op["container"] = rng.choice(["div", "td", "select", "svg"])
            ops.append(op)
            continue
        if pending_observer is not None and rng.random() < 0.6:
            oi = pending_observer
        else:
            oi = rng.randrange(len(objs))
        cfg = objs[oi]
        if cfg["type"] == "serializer":
            op = {"op": "serialize", "obj": oi, "doc": list(rng.choice(SER_DOCS)) if rng.random() < 0.7 else _soup(rng, 8),
                  "builder": rng.choice(["etree", "dom"]), "encoding": rng.choice(ENCODINGS_OUT)}
            if faulty and rng.random() < 0.35:
                op["take"] = rng.randint(0, 12)
            elif rng.random() < 0.25:
                op["reser"] = True       # the tree is edited and rendered again with the same serializer and walker object
            elif rng.random() < 0.25:
                op["defer"] = True       # the generator is created now and consumed after the next call on this serializer
            elif rng.random() < 0.3:
                # a second document rendered by the same serializer, chunk by chunk in turns with this one
                op["alt"] = [rng.choice(rng.choice(SER_TWIN_FAMILIES))] if rng.random() < 0.6 else list(rng.choice(SER_DOCS))
            ops.append(op)
            pending_observer = None
            continue
        role = "observer" if pending_observer == oi else rng.choice(["setter", "setter", "observer", "soup"])
        op = _gen_parse_op(rng, oi, cfg, role, faulty)
        if faulty and role != "observer" and rng.random() < 0.55:
            _add_fault(rng, cfg, op)
        ops.append(op)
        pending_observer = oi if role == "setter" and rng.random() < 0.8 else None
    case = {"prop": PROP, "stream": stream, "objs": objs, "ops": ops}
    if rng.random() < 0.12:
        pos = rng.randint(0, len(ops))
        pair = gen_alias_pair(rng, n_parsers)
        k = rng.randint(0, 2)
        case["ops"] = ops[:pos] + pair[:1] + ops[pos:pos + k] + pair[1:] + ops[pos + k:]
        case["pristine"] = True       # always compared with the pristine interpreter
    elif rng.random() < 0.17:
        ops = case["ops"]
        pos = rng.randint(0, len(ops))
        pair = gen_twin_pair(rng, n_parsers, objs)
        k = rng.randint(0, 1)
        case["ops"] = ops[:pos] + pair[:1] + ops[pos:pos + k] + pair[1:] + ops[pos + k:]
    if n_ser and rng.random() < 0.35:
        ops = case["ops"]
        pos = rng.randint(0, len(ops))
        pair = gen_ser_twin_pair(rng, rng.randrange(n_parsers, len(objs)))
        k = rng.randint(0, 1)
        case["ops"] = ops[:pos] + pair[:1] + ops[pos:pos + k] + pair[1:] + ops[pos + k:]
    return case


# ---- aged objects: the history above starts from brand-new objects; a long-lived parser in a server has thousands of
# calls and hundreds of thousands of tokens and errors behind it.  An "age" is a legitimate earlier life of one object:
# N calls on one ageing document (results dropped), after which the ordinary history runs and is compared as always.
AGE_DOCS = {
    # name: (atoms of one repetition, prefix) - errors / tokens / distinct names / restarts accumulate per call
    "errors": (["</x>"], ["<body>"]),
    "errors_table": (["x", "</q>"], ["<table>"]),
    "charref_errors": (["&#0;", "&nosuch;", "\x00"], []),
    "tokens": (["<p>x</p>"], ["<!DOCTYPE html><html><head><title>t</title></head><body>"]),
    "attrs": (["<a b=c d=e>y</a>"], ["<!DOCTYPE html>"]),
    "names": (None, []),                 # a different run of never-seen tag names per call
    "formatting": (["<b><i>x</b></i>"], []),
    "bytes_restart": (None, []),         # bytes with a late <meta>: one restart per call
}


def _age_text(age, call_no):
    kind, k = age["doc"], age["k"]
    if kind == "names":
        base = call_no * k
        return "".join("<n%d>" % (base + j) for j in range(k))
    rep, prefix = AGE_DOCS[kind]
    return "".join(prefix) + "".join(rep) * k


def apply_age(obj, cfg, age):
    """The earlier life of a long-lived object.  Only public calls; outcomes are not looked at."""
    n = age["n"]
    if cfg["type"] == "serializer":
        walker = html5lib.getTreeWalker("etree")
        tree = html5lib.parse("<p a=b>x<br><!--c-->" * age["k"])
        for _ in range(n):
            try:
                for _piece in obj.serialize(walker(tree)):
                    pass
            except Exception:
                pass
        return
    for c in range(n):
        try:
            if age["doc"] == "bytes_restart":
                obj.parse(b"<title>x</title>" + b"y" * 1100 + b"<meta charset=koi8-r><p>\xc1" + b"</z>" * age["k"])
            elif age.get("frag") and c % 2:
                obj.parseFragment(_age_text(age, c), container="div")
            else:
                obj.parse(_age_text(age, c))
        except Exception:
            pass


def gen_age(rng, cfg):
    if cfg["type"] == "serializer":
        return {"doc": "ser", "k": rng.choice([1, 20]), "n": rng.choice([10, 100, 1000])}
    kinds = ["tokens", "attrs", "names", "formatting"] if cfg["strict"] else sorted(AGE_DOCS)
    kind = rng.choice(kinds) if rng.random() < 0.6 or cfg["strict"] else "errors"
    k = rng.choice([20, 400, 1500])
    total = int(2000 * (125 ** rng.random()))          # 2 000 .. 250 000 repetitions over the object's earlier life
    age = {"doc": kind, "k": k, "n": max(2, min(3000, total // k))}
    if rng.random() < 0.3:
        age["frag"] = True
    return age


def gen_aged_history(rng):
    # (a third of them with injected aborts: what an aged object does after an aborted call)
    case = gen_history(rng, "M2" if rng.random() < 0.33 else "M1")
    case["stream"] = "M1aged"
    case.pop("pristine", None)
    objs = [dict(o) for o in case["objs"]]
    used = sorted({op["obj"] for op in case["ops"] if "obj" in op}) or [0]
    for oi in rng.sample(used, 1 if rng.random() < 0.7 else min(2, len(used))):
        objs[oi]["age"] = gen_age(rng, objs[oi])
    case["objs"] = objs
    return case


def gen_abort_sweep(rng):
    """Systematic sweep of the abort point: one parser configuration, one
    short state-setting document, and for EVERY token index k and EVERY read
    index r of that document one history [setter aborted there, observer,
    observer] ("abort of any call at any token or read")."""
    cfg = dict(rng.choice(PARSER_CONFIGS), type="parser")
    cfg["strict"] = False
    setter = list(rng.choice(SETTERS))
    if rng.random() < 0.3:
        setter = ["<!DOCTYPE html>"] + setter
    if rng.random() < 0.3:
        setter = setter + [rng.choice(["x", " ", "\n", "<b>", "</p>", "<!--c-->", "&amp;"])]
    first = {"op": "parse", "obj": 0, "doc": setter}
    if rng.random() < 0.3:
        first = {"op": "frag", "obj": 0, "doc": setter, "container": rng.choice(FRAG_CONTAINERS)}

    def observers():
        out = []
        for _ in range(2):
            doc = list(rng.choice(OBSERVERS))
            if rng.random() < 0.3:
                out.append({"op": "frag", "obj": 0, "doc": doc, "container": rng.choice(FRAG_CONTAINERS)})
            else:
                out.append({"op": "parse", "obj": 0, "doc": doc})
        return out
    ntok, _ = _count(cfg, dict(first))
    io_op = dict(first, chunk=1, src={"reads": [], "rest": 1})
    _n, nreads = _count(cfg, dict(io_op))
    cases = []
    for k in range(0, ntok + 1):
        cases.append({"prop": PROP, "stream": "M2sweep", "objs": [cfg], "ops": [dict(first, cancel_at=k)] + observers()})
    for r in range(0, nreads):
        cases.append({"prop": PROP, "stream": "M2sweep", "objs": [cfg],
                      "ops": [dict(io_op, src=dict(io_op["src"], fail_at=r))] + observers()})
    for L in (3, 5, 7, 9, 11, 14):
        cases.append({"prop": PROP, "stream": "M2sweep", "objs": [cfg], "ops": [dict(first, stack=L)] + observers()})
    return cases


def gen_unit(rng, stream="M1"):
    if stream == "M3":
        from . import baton
        return [baton.gen_case(rng)]
    if stream == "M4":
        from . import firstcall
        return [firstcall.gen_case(rng)]
    if stream == "M2sweep":
        return gen_abort_sweep(rng)
    if stream == "M1aged":
        return [gen_aged_history(rng)]
    return [gen_history(rng, stream)]


# --------------------------------------------------------------------------
# execution of a history

_fresh_memo = {}


def block_start():
    """Defined process-wide state at the start of every block of units (and
    of every replay): caches emptied, harness memos of same-process
    references dropped (they are only pure if nothing leaks process-wide)."""
    cold_restart()
    _fresh_memo.clear()
    from . import baton
    baton._ref_memo.clear()


def fresh_outcome(cfg, op):
    """Outcome of the op on brand-new objects (same process)."""
    if op["op"] in ("walk", "cold_restart", "pipeline"):
        return None
    key = json.dumps([cfg, op], sort_keys=True)
    hit = _fresh_memo.get(key)
    if hit is not None:
        return hit
    # the reference work must not show up in the run's probes / step counts
    # (whether it is memoised depends on the worker's history)
    saved = dict(probes.PROBES)
    out = public_outcome(exec_op(new_object(cfg), cfg, op))
    probes.PROBES.clear()
    probes.PROBES.update(saved)
    if len(_fresh_memo) > 2000:
        _fresh_memo.clear()
    _fresh_memo[key] = out
    return out


def execute(case):
    if case.get("stream") == "M3":
        from . import baton
        return baton.execute(case)
    if case.get("stream") == "M4":
        from . import firstcall
        return firstcall.execute(case)
    probes.install()
    probes.reset()
    stats = {"faults": {}, "probes": {}, "steps": 0, "reach": [], "nontrivial": False, "fault_free": True}
    res = {"ok": True, "oracle": None, "detail": "", "known": None, "stats": stats}
    P = probes.PROBES
    f = stats["faults"]
    objs = [new_object(cfg) for cfg in case["objs"]]
    # pristine-interpreter reference: all ops of every 8th history (decided by
    # the case itself, not by a PRNG), every op that follows a cold restart,
    # and every op whose same-process comparison is about to be reported
    pristine_all = bool(case.get("pristine")) or env.digest64(json.dumps(case, sort_keys=True)) % 8 == 0
    after_cold = False
    uses = [0] * len(objs)
    aged = []
    for oi, cfg in enumerate(case["objs"]):
        if cfg.get("age"):
            saved = dict(P)
            apply_age(objs[oi], cfg, cfg["age"])
            P.clear()
            P.update(saved)
            P["aged_object"] += 1
            if cfg["age"]["n"] * cfg["age"]["k"] >= 100000:
                P["aged_object_100k"] += 1
            f["aged_object"] = f.get("aged_object", 0) + 1
            aged.append((oi, cfg["age"]["doc"], cfg["age"]["n"], cfg["age"]["k"]))
    last_sig = [None] * len(objs)
    last_kind = [None] * len(objs)
    returned = []   # (op index, builder, tree object, canonical form at return time)
    handed_out_errors = []   # (op index, the parser.errors list object as handed out, its canonical form then)
    handed_out_ser_errors = []   # the same for HTMLSerializer.errors
    reach = set()
    deferred = {}    # serializer index -> [(op index, op, generator created but not yet consumed)]
    trace = [("aged",) + a for a in aged]
    failure = None
    for i, op in enumerate(case["ops"]):
        kind = op["op"]
        if kind == "cold_restart":
            cold_restart()
            f["cold_restart"] = f.get("cold_restart", 0) + 1
            trace.append(("cold_restart",))
            after_cold = True
            continue
        if kind == "pipeline":
            out = run_pipeline_op(op)
            trace.append(("pipeline", out[0], env.digest(out)[:12]))
            from .zygote import ZYGOTE
            pr = ZYGOTE.request("pipe|" + json.dumps(op, sort_keys=True), {"kind": "pipeline", "op": op})
            P["pristine_reference_used"] += 1
            P["pipeline_ops"] += 1
            if pr != out:
                failure = ("pristine", "op %d (pipeline %s -> %s): this process gives %s, a pristine interpreter %s"
                           % (i, op.get("filters"), op.get("sink"), brief(out, 200), brief(pr, 200)))
                break
            continue
        if kind == "walk":
            out = run_walk_op(op)
            trace.append(("walk", out[0], out[2:] if out[0] == "ok" else out[1:]))
            if out[0] == "setup_raise":
                pass
            elif out[0] != "ok" or not (out[2] and out[3]):
                failure = ("walker", "op %d: walking the same tree twice gives different streams or raises: %s" % (i, brief(out[:1] + out[2:])))
                break
            if pristine_all or after_cold:
                from .zygote import ZYGOTE
                pr = ZYGOTE.request("walk|" + json.dumps(op, sort_keys=True), {"kind": "walk", "op": op})
                P["pristine_reference_used"] += 1
                if pr != out:
                    failure = ("pristine", "op %d (walk): this process gives %s, a pristine interpreter %s"
                               % (i, brief(out, 200), brief(pr, 200)))
                    break
            continue
        oi = op["obj"]
        cfg = case["objs"][oi]
        obj = objs[oi]
        tok_before = id(obj.__dict__.get("tokenizer")) if cfg["type"] == "parser" else None
        if op.get("stack") is not None:
            # a defined cache state, so that where the frame budget runs out
            # does not depend on what this worker process executed before
            cold_restart()
            after_cold = True
        restarts_before = P.get("restart_fired", 0)
        if kind == "serialize" and op.get("defer"):
            st = start_serialize(obj, op)
            if st[0] == "started":
                # consumed after the NEXT call on the same serializer has completed (or at the end of the history)
                deferred.setdefault(oi, []).append((i, op, st[1]))
                f["serializer_generator_consumed_later"] = f.get("serializer_generator_consumed_later", 0) + 1
                trace.append((kind, oi, "deferred"))
                uses[oi] += 1
                continue
            out = st
        else:
            out = exec_op(obj, cfg, op)
        pub = public_outcome(out)
        ref = fresh_outcome(cfg, op) if op.get("stack") is None else None
        uses[oi] += 1
        if op.get("stack") is not None:
            trace.append((kind, oi, "stack_op"))
        else:
            trace.append((kind, oi, pub[0], env.digest(pub)[:12]))
        # ---- bookkeeping: faults fired, probes, reach
        if cfg["type"] == "parser":
            sig = end_state_signature(obj)
            how = out[0]
            if last_sig[oi] is not None:
                reach.add("%s|%s|%s" % (last_sig[oi], last_kind[oi], kind))
            if how == "parse_error":
                f["strict_parse_error"] = f.get("strict_parse_error", 0) + 1
            elif how == "io_error":
                f["read_raises"] = f.get("read_raises", 0) + 1
            elif how == "cancelled":
                f["cancel_between_tokens"] = f.get("cancel_between_tokens", 0) + 1
            elif how == "stack_exhausted":
                f["stack_exhaustion_mid_token"] = f.get("stack_exhaustion_mid_token", 0) + 1
            if how in ("parse_error", "io_error", "cancelled", "stack_exhausted"):
                if sig[3] is True:
                    P["abort_with_table_text_pending"] += 1
                if sig[4] is True:
                    P["abort_with_drop_newline_armed"] += 1
                try:
                    st = obj.tokenizer.state.__name__
                    if st in ("rcdataState", "rawtextState", "scriptDataState", "plaintextState") or "scriptData" in st:
                        P["abort_inside_rawtext"] += 1
                except Exception:
                    pass
                if how == "io_error" and id(obj.__dict__.get("tokenizer")) == tok_before:
                    P["abort_during_sniffing"] += 1
                if P.get("restart_fired", 0) > restarts_before:
                    P["abort_in_second_pass_after_restart"] += 1
            if handler_cache_sizes(obj):
                P["handler_cache_full"] += 1
            if last_kind[oi] is not None and {last_kind[oi].split(":")[0], kind} == {"parse", "frag"}:
                P["fragment_document_alternation"] += 1
            last_sig[oi] = sig
            last_kind[oi] = kind + ":" + how
        else:
            if out[0] == "serialize_error":
                f["strict_serialize_error"] = f.get("strict_serialize_error", 0) + 1
            if out[0] == "ok" and out[3] is not None:
                f["serializer_generator_abandoned"] = f.get("serializer_generator_abandoned", 0) + 1
            if out[0] == "ok" and len(out) == 6:
                P["rendered_again_after_tree_edit" if op.get("reser") else "two_generators_stepped_in_turns"] += 1
                if out[4] is not True:
                    if op.get("alt"):
                        failure = ("reuse", "op %d (serialize on object %d): two results of the same serializer (same encoding) consumed a "
                                   "chunk at a time in turns give %s - each alone on a brand-new serializer gives something else"
                                   % (i, oi, brief(out[5], 200)))
                    else:
                        failure = ("reuse", "op %d (serialize on object %d): after the caller edited the tree, the same serializer with the "
                                   "same walker object renders %s - a brand-new serializer with a brand-new walker renders the edited tree "
                                   "differently" % (i, oi, brief(out[5], 200)))
                    break
        # ---- oracle: reused == fresh
        if op.get("stack") is not None:
            # where the frame budget runs out legitimately depends on how warm
            # the process-wide caches are (a cache miss is a deeper call chain),
            # so the outcome of the faulted call itself is not compared - what
            # the object does *afterwards* is
            continue
        if pub != ref:
            pr = _pristine(cfg, op)
            failure = ("reuse", "op %d (%s on object %d, use #%d): reused object gives %s, a brand-new object gives %s; %s; "
                       "pristine interpreter agrees with %s"
                       % (i, kind, oi, uses[oi], brief(pub, 200), brief(ref, 200), _diff_detail(pub, ref),
                          "the brand-new object" if pr == ref else ("the reused object" if pr == pub else "neither")))
            break
        if pristine_all or after_cold:
            pr = _pristine(cfg, op)
            P["pristine_reference_used"] += 1
            if pr != pub:
                failure = ("pristine", "op %d (%s on object %d, use #%d): this process gives %s (reused and brand-new objects "
                           "agree), a pristine interpreter gives %s; %s"
                           % (i, kind, oi, uses[oi], brief(pub, 200), brief(pr, 200), _diff_detail(pub, pr)))
                break
        if out[0] == "ok" and len(out) == 5:
            returned.append((i, cfg["builder"], out[4], out[1]))
        if cfg["type"] == "serializer" and out[0] in ("ok", "serialize_error") and op.get("take") != 0:
            errs = getattr(obj, "errors", None)
            if isinstance(errs, list):
                handed_out_ser_errors.append((i, errs, tuple(errs)))
        if cfg["type"] == "serializer" and deferred.get(oi):
            failure = _consume_deferred(deferred.pop(oi), obj, cfg, oi, trace, handed_out_ser_errors)
            if failure:
                break
        if cfg["type"] == "parser" and out[0] in ("ok", "parse_error"):
            # the caller may keep parser.errors as the record for this input: the
            # list object itself (not a copy) is looked at again at the end
            errs = getattr(obj, "errors", None)
            if isinstance(errs, list):
                handed_out_errors.append((i, errs, _errors_snapshot(errs)))
    if failure is None:
        for oi in sorted(deferred):
            failure = _consume_deferred(deferred[oi], objs[oi], case["objs"][oi], oi, trace, handed_out_ser_errors)
            if failure:
                break
    if failure is None:
        # cross-invariant: nothing returned earlier has changed since
        for (i, builder, tree, canon0) in returned:
            try:
                now = canon_tree(tree, builder)
            except Exception as e:
                now = ("raise", type(e).__name__)
            if now != canon0:
                failure = ("cross", "the tree returned by op %d changed after later ops on the same objects: %s"
                           % (i, first_diff(canon0, now)))
                break
    if failure is None and len(returned) >= 2:
        # results must not SHARE mutable parts either: change each earlier result the way a caller might (an attribute
        # on its elements, text appended to its root) and see that no other result moves
        for k, (i, builder, tree, canon0) in enumerate(returned[:6]):
            try:
                _poke(tree, builder, k)
            except Exception:
                continue
            for m, (j, builder2, tree2, canon2) in enumerate(returned[:6]):
                if m <= k:
                    continue
                try:
                    now = canon_tree(tree2, builder2)
                except Exception as e:
                    now = ("raise", type(e).__name__)
                if now != canon2:
                    failure = ("cross", "changing the tree returned by op %d (as a caller might) changed the tree returned by "
                               "op %d: %s" % (i, j, first_diff(canon2, now)))
                    break
            if failure:
                break
    if failure is None:
        for (i, errs, canon0) in handed_out_errors:
            try:
                now = _errors_snapshot(errs)
            except Exception as e:
                now = [("raise", type(e).__name__, 0)]
            if now != canon0:
                failure = ("cross", "the parser.errors list handed out by op %d changed after later ops on the same parser: %s"
                           % (i, first_diff(canon0, now)))
                break
    if failure is None:
        for (i, errs, snap) in handed_out_ser_errors:
            if tuple(errs) != snap:
                failure = ("cross", "the serializer.errors list handed out by op %d changed after later ops on the same serializer: "
                           "%s -> %s" % (i, brief(snap, 120), brief(tuple(errs), 120)))
                break
    stats["probes"] = dict(P)
    stats["steps"] = len(case["ops"]) + P.get("readChunk", 0)
    stats["reach"] = sorted(reach)
    stats["nontrivial"] = any(u >= 2 for u in uses)
    stats["fault_free"] = not f
    res["digest"] = env.digest(trace)
    if failure is not None:
        res["ok"] = False
        res["oracle"] = failure[0]
        res["detail"] = failure[1]
    return res


def _consume_deferred(items, ser, cfg, oi, trace, handed_out_ser_errors):
    """Consume generators created by earlier serialize() calls on `ser` (oldest first) and compare each with what a brand-new
    serializer gives for the same call.  -> failure tuple or None"""
    for (j, op, g) in items:
        out = finish_serialize(ser, op, g)
        ref = fresh_outcome(cfg, op)
        trace.append(("serialize-consumed-later", oi, j, out[0], env.digest(out)[:12]))
        if out != ref:
            return ("reuse", "op %d (serialize on object %d): the generator was created, another call was made on the same serializer, "
                    "then the generator was consumed: it yields %s, a brand-new serializer gives %s for the same call"
                    % (j, oi, brief(out, 200), brief(ref, 200)))
        errs = getattr(ser, "errors", None)
        if isinstance(errs, list):
            handed_out_ser_errors.append((j, errs, tuple(errs)))
    return None


def _errors_snapshot(errs):
    """(code, line, col, variables) - the variables dict by value, so that a dict shared between entries or calls and
    changed later shows up."""
    return [(str(code), pos[0], pos[1], tuple(sorted((str(k), str(v)) for k, v in (dv or {}).items())))
            for pos, code, dv in errs]


def _poke(tree, builder, k):
    """Mutate a returned tree in place the way application code might."""
    if builder.startswith("dom"):
        n = 0
        stack = [tree]
        while stack and n < 50:
            node = stack.pop()
            if node.nodeType == node.ELEMENT_NODE:
                node.setAttribute("data-poke", str(k))
                n += 1
            stack.extend(node.childNodes)
        return
    root = tree.getroot() if hasattr(tree, "getroot") else tree
    n = 0
    for el in root.iter():
        if isinstance(el.tag, str):
            el.attrib["data-poke"] = str(k)
            el.text = (el.text or "") + "<poke %d>" % k
            n += 1
            if n >= 50:
                break


def _pristine(cfg, op):
    from .zygote import ZYGOTE
    key = json.dumps([cfg, op], sort_keys=True)
    return ZYGOTE.request(key, {"kind": "obj", "cfg": cfg, "op": op})


def _diff_detail(a, b):
    if a[0] != b[0]:
        return "outcome kinds differ"
    if a[0] == "ok" and len(a) >= 4 and isinstance(a[1], tuple):
        if a[1] != b[1]:
            return "tree: " + first_diff(b[1], a[1])
        if a[2] != b[2]:
            return "errors: " + first_diff(b[2], a[2])
        if a[3] != b[3]:
            return "documentEncoding"
    return ""


# --------------------------------------------------------------------------
# minimisation

def shrinks(case):
    if case.get("stream") == "M3":
        from . import baton
        yield from baton.shrinks(case)
        return
    if case.get("stream") == "M4":
        from . import firstcall
        yield from firstcall.shrinks(case)
        return
    ops = case["ops"]
    n = len(ops)
    size = n // 2
    while size >= 1:
        for i in range(0, n, size):
            cand = ops[:i] + ops[i + size:]
            if cand and cand != ops:
                yield dict(case, ops=cand)
        size //= 2
    for i, op in enumerate(ops):
        for simpler in _simpler_ops(op):
            yield dict(case, ops=ops[:i] + [simpler] + ops[i + 1:])
    # drop objects no op refers to
    used = sorted({op["obj"] for op in ops if "obj" in op})
    if len(used) < len(case["objs"]):
        remap = {o: k for k, o in enumerate(used)}
        yield dict(case, objs=[case["objs"][o] for o in used],
                   ops=[dict(op, obj=remap[op["obj"]]) if "obj" in op else op for op in ops])
    # simpler object configurations
    for j, cfg in enumerate(case["objs"]):
        age = cfg.get("age")
        if age:
            rest = {k: v for k, v in cfg.items() if k != "age"}
            yield dict(case, objs=case["objs"][:j] + [rest] + case["objs"][j + 1:])
            for n2 in (age["n"] // 2, age["n"] - 1):
                if n2 >= 1:
                    yield dict(case, objs=case["objs"][:j] + [dict(cfg, age=dict(age, n=n2))] + case["objs"][j + 1:])
            if age.get("frag"):
                yield dict(case, objs=case["objs"][:j] + [dict(cfg, age={k: v for k, v in age.items() if k != "frag"})] + case["objs"][j + 1:])
        if cfg["type"] == "parser":
            for k, v in (("builder", "etree"), ("ns", True)):
                if cfg[k] != v:
                    yield dict(case, objs=case["objs"][:j] + [dict(cfg, **{k: v})] + case["objs"][j + 1:])
        elif cfg.get("opts"):
            yield dict(case, objs=case["objs"][:j] + [dict(cfg, opts={})] + case["objs"][j + 1:])


def _simpler_ops(op):
    if "doc" in op:
        doc = op["doc"]
        for k in range(len(doc)):
            yield dict(op, doc=doc[:k] + doc[k + 1:])
        for k, a in enumerate(doc):
            if len(a) > 3:
                yield dict(op, doc=doc[:k] + [a[:len(a) // 2]] + doc[k + 1:])
    if op.get("scripting") is not None:
        o = dict(op)
        del o["scripting"]
        yield o
    if op["op"] == "frag" and op["container"] not in ("div", None):
        yield dict(op, container="div")
    if op.get("chunk") not in (None, 10240):
        yield dict(op, chunk=10240)
    if op.get("cancel_at"):
        yield dict(op, cancel_at=op["cancel_at"] - 1)
    if op.get("stack") and op["stack"] > 1:
        yield dict(op, stack=op["stack"] - 1)
    if op.get("encoding"):
        yield dict(op, encoding=None)
    if op.get("take"):
        yield dict(op, take=op["take"] - 1)
    if op.get("reser"):
        yield {k: v for k, v in op.items() if k != "reser"}
    if op.get("defer"):
        yield {k: v for k, v in op.items() if k != "defer"}
    if op.get("alt"):
        yield {k: v for k, v in op.items() if k != "alt"}
    if op.get("filters"):
        for k in range(len(op["filters"])):
            yield dict(op, filters=op["filters"][:k] + op["filters"][k + 1:])
    if op.get("sink") not in (None, "tokens"):
        yield dict(op, sink="tokens")
    if op["op"] == "pipeline" and op.get("container"):
        yield dict(op, container=None)


def describe(case):
    if case.get("stream") == "M3":
        from . import baton
        return baton.describe(case)
    if case.get("stream") == "M4":
        from . import firstcall
        return firstcall.describe(case)

    def d(op):
        o = {k: v for k, v in op.items() if k not in ("doc", "hex")}
        if "doc" in op:
            t = "".join(op["doc"])
            o["text"] = t if len(t) <= 120 else t[:120] + "...(%d chars)" % len(t)
        if "hex" in op:
            b = bytes.fromhex(op["hex"])
            o["bytes"] = repr(b if len(b) <= 80 else b[:80] + b"...")
        return o
    return {"stream": case["stream"], "objs": case["objs"], "ops": [d(op) for op in case["ops"]]}


def plan(tier):
    if tier == "thorough":
        return [("M1", 200000), ("M2", 300000), ("M2sweep", 10000), ("M1aged", 4000), ("M4", 20000), ("M3", 30000)], 1800
    return [("M1", 6000), ("M2", 9000), ("M2sweep", 500), ("M1aged", 128), ("M4", 400), ("M3", 2000)], 420


RULE = ("one run = one history of 2..12 operations (parse / parseFragment / parse of bytes with restart / serialize / walk / "
        "cold restart of process-wide caches, with injected strict ParseError, read error, cancellation between tokens, abandoned "
        "serializer generator, strict SerializeError) on 1..5 long-lived objects, each op compared with brand-new objects, plus the "
        "end-of-history invariant that no earlier result changed; M3: 2-3 simulated caller threads with private objects under the "
        "baton scheduler; non-trivial = some object used at least twice (M1/M2) or at least one pre-emption inside a hot function "
        "(M3); M1aged: the same histories on objects with an earlier life of up to 250 000 repetitions of an ageing document "
        "(errors, tokens, tag names, restarts accumulated over up to 3 000 calls); M4: the first library calls of a bare "
        "interpreter (only `import html5lib` executed) raced by 2-3 threads, pre-emption also while a lazily imported module is "
        "half-initialised, the per-module import lock intercepted; non-trivial (M4) = at least one pre-emption while a module "
        "body is on a thread's stack; distinct = distinct SHA-1 of the explicit case")
EXPECTED_PROBES = ["pristine_reference_used", "cold_miss_under_contention", "hot_preemptions", "abort_with_table_text_pending", "abort_inside_rawtext", "abort_during_sniffing",
                   "abort_in_second_pass_after_restart", "handler_cache_full", "fragment_document_alternation",
                   "restart_fired", "abort_with_drop_newline_armed", "aged_object_100k", "race_with_half_imported_module",
                   "import_lock_contention"]
REACH_NOTE = ("distinct (end-state signature of the previous call on the object [phase, framesetOK, compatMode, table text pending, "
              "drop-newline armed, formPointer, active formatting, innerHTML, depth bucket], how it ended, next op kind)")
REAL_VS_STUB = {
    "real": ["html5lib HTMLParser/phases/tree builders (etree, etree fullTree, dom), tokenizer, input streams, HTMLSerializer and "
             "all filters, tree walkers, process-wide caches (repository working tree)", "real threads (M3)",
             "a second, pristine CPython interpreter under another PYTHONHASHSEED for the sampled reference"],
    "stub": ["SimSource readers with injected read failure", "tokenizer subclass raising SimCancelled before token k (bound through "
             "html5parser's module global for the duration of the call)", "cache purge standing in for a process restart",
             "baton scheduler choosing which thread runs (sys.settrace pre-emption points)",
             "M4: importlib's _ModuleLock.acquire replaced (in the forked child only) by a version that yields to the scheduler "
             "instead of blocking in C; same ownership, re-entrancy and deadlock-detection logic"],
}
ASSUMPTIONS = [
    "sampling, not proof", "after an abort injected from outside (read error, cancellation) only the propagated exception is compared, "
    "not attributes of the aborted parser", "one parser shared by several threads is outside the property's quantifier and is not simulated",
    "M4 pre-empts at line events of html5lib / xml / encodings / webencodings frames only; frames of the import system itself run "
    "atomically (they hold C-level locks for a few instructions), so races inside importlib are not explored",
    "thresholds on cumulative per-object counters above 250 000 repetitions (M1aged) are out of reach",
]
