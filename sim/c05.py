"""C05 - the result does not depend on how the input characters are delivered.

One *unit* = one document + 6..10 deliveries; one *case* = one delivery (an
explicit, JSON-able dict that is replayable without any PRNG).
"""
from __future__ import annotations

import codecs
import re

from . import env  # noqa: F401
from . import gen, probes, sources
from .canon import canon_etree, canon_dom, canon_errors, first_diff, brief
from .sources import ReadLog, SimBudgetExceeded, make_source

import html5lib
from html5lib import _inputstream, treebuilders
import webencodings

PROP = "C05"

ENCODINGS = sorted(set(webencodings.LABELS.values()) - {"replacement"})
BOMS = {"utf-8": codecs.BOM_UTF8, "utf-16le": codecs.BOM_UTF16_LE, "utf-16be": codecs.BOM_UTF16_BE}
ALL_BOMS = (codecs.BOM_UTF8, codecs.BOM_UTF16_LE, codecs.BOM_UTF16_BE, codecs.BOM_UTF32_LE, codecs.BOM_UTF32_BE)
CHUNKS = [1, 2, 3, 4, 5, 7, 8, 16, 63, 64, 1000, 1024, 10240]
KEYWORDS = ["<!--", "-->", "doctype", "public", "system", "[cdata[", "]]>", "</script", "</title", "</textarea", "</style",
            "&amp;", "&#x", "\r\n"]
_KW_RE = re.compile("|".join(re.escape(k) for k in KEYWORDS), re.I)

_builder = [None]


def _tb():
    if _builder[0] is None:
        _builder[0] = treebuilders.getTreeBuilder("etree", fullTree=True)
    return _builder[0]


# --------------------------------------------------------------------------
# payloads

def text_of(case):
    return "".join(case["atoms"])


def has_surrogate(text):
    return any(0xD800 <= ord(c) <= 0xDFFF for c in text)


def byte_payload(text, enc, declare):
    """(payload bytes, the characters they carry).  The characters are the
    strict decoding of the payload, so 'the same characters' is unambiguous."""
    codec = webencodings.lookup(enc).codec_info
    raw = codec.encode(text, "ignore")[0]
    chars = codec.decode(raw, "strict")[0]
    if declare != "bom":
        # never *accidentally* start with a BOM: sniffing legitimately
        # outranks a declared encoding
        if raw.startswith(ALL_BOMS) or chars[:1] == "\ufeff":
            raw = codec.encode(" ", "strict")[0] + raw
            chars = codec.decode(raw, "strict")[0]
        return raw, chars
    if chars[:1] == "\ufeff":
        raw = codec.encode(" ", "strict")[0] + raw
        chars = codec.decode(raw, "strict")[0]
    return BOMS[enc] + raw, chars


def usable_encoding(enc):
    return enc in _USABLE


def _probe_encodings():
    """Encodings whose stream reader (what html5lib uses) agrees with the
    codec's one-shot decoder on a simple sample; a disagreement is a property
    of webencodings/CPython, not of html5lib, and would make 'the same
    characters' ill-defined."""
    ok = []
    import io
    for enc in ENCODINGS:
        ci = webencodings.lookup(enc).codec_info
        try:
            sample = ci.encode("abc <p>\r\n\xe9\u20ac\u3042\u0416", "ignore")[0]
            a = ci.decode(sample, "strict")[0]
            b = ci.streamreader(io.BytesIO(sample), "replace").read()
        except Exception:
            continue
        if a == b:
            ok.append(enc)
    return ok


_USABLE = _probe_encodings()


# --------------------------------------------------------------------------
# generation

def make_schedule(rng, payload, first_small=False):
    """A read schedule {"reads": [...], "rest": k} for this payload."""
    n = len(payload)
    strat = rng.choice(["ones", "uniform", "geometric", "targeted", "targeted", "targeted", "frontload", "bigthenones",
                        "contiguous"])
    if strat == "ones":
        return {"reads": [], "rest": 1}, strat
    if strat == "contiguous":
        return {"reads": [], "rest": 1 << 30}, strat
    if strat == "uniform":
        k = rng.choice([2, 3, 4, 7, 16, 64])
        return {"reads": [rng.randint(1, k) for _ in range(min(n, 200))], "rest": rng.choice([1, k, 1 << 30])}, strat
    if strat == "geometric":
        reads = []
        for _ in range(min(n, 200)):
            k = 1
            while rng.random() < 0.6 and k < 4096:
                k *= 2
            reads.append(rng.randint(max(1, k // 2), k))
        return {"reads": reads, "rest": rng.choice([1, 5, 1 << 30])}, strat
    if strat == "frontload":
        reads = [rng.randint(1, 3) for _ in range(rng.randint(1, 4))]
        return {"reads": reads, "rest": rng.choice([1, 1 << 30, 1000])}, strat
    if strat == "bigthenones":
        return {"reads": [rng.randint(1, max(1, n))], "rest": 1}, strat
    # boundary-targeted
    cuts = set()
    is_bytes = isinstance(payload, (bytes, bytearray))
    limit = min(n, 30000)
    if is_bytes:
        interesting = b"\r\n<&;->![]"
        for i in range(limit):
            b = payload[i]
            if b >= 0x80 or b in interesting or b == 0x1b:
                if rng.random() < 0.5:
                    cuts.add(i)
                if rng.random() < 0.5:
                    cuts.add(i + 1)
        for off in (1, 2, 3, 4, 1023, 1024, 1025):
            if rng.random() < 0.5:
                cuts.add(off)
    else:
        interesting = "\r\n<&;->![]"
        for i in range(limit):
            c = payload[i]
            if c in interesting or ord(c) >= 0xD800:
                if rng.random() < 0.5:
                    cuts.add(i)
                if rng.random() < 0.5:
                    cuts.add(i + 1)
    low = payload.lower() if not is_bytes else payload.lower().decode("latin-1")
    for m in _KW_RE.finditer(low[:limit]):
        if rng.random() < 0.7:
            cuts.add(rng.randint(m.start() + 1, max(m.start() + 1, m.end() - 1)))
    cuts = sorted(c for c in cuts if 0 < c < n)
    if len(cuts) > 40:
        start = rng.randint(0, len(cuts) - 40)
        cuts = cuts[start:start + 40] if rng.random() < 0.5 else sorted(rng.sample(cuts, 40))
    reads = []
    prev = 0
    for c in cuts:
        reads.append(c - prev)
        prev = c
    return {"reads": reads, "rest": rng.choice([1, 1 << 30, 2, 1 << 30])}, strat


def pick_chunk(rng, n):
    r = rng.random()
    if r < 0.12:
        # any size between 1 and the length of the input (the fixed list below leaves 9..62, 65..999, ... out)
        return rng.randint(1, max(1, n))
    if r < 0.25:
        return rng.choice([max(1, n - 1), max(1, n), n + 1])
    if r < 0.55:
        return rng.choice([1, 2, 3, 4, 5])
    return rng.choice(CHUNKS)


def gen_sweep_unit(rng):
    """Systematic sweep: one short document, EVERY single cut position (a
    read boundary after k items, k = 1..n-1) for a short-read text stream and
    for non-seekable byte streams, plus every chunk size 1..min(n, 12).  Makes
    boundary-specific defects independent of luck for short inputs."""
    surrogates_ok = rng.random() < 0.2
    weights = gen.make_weights(rng)
    atoms = [gen.atom(rng, surrogates_ok, weights) for _ in range(rng.randint(1, 5))]
    r1 = rng.random()
    if r1 < 0.1:
        atoms = gen.class_lookalike(rng, [rng.choice(gen._CLASS_ATOMS)] + atoms[:2])
    elif r1 < 0.22:
        atoms = gen.fold_lookalike(rng, [rng.choice(gen._KEYWORD_ATOMS)] + atoms[:2])
    elif rng.random() < 0.3:
        atoms = [rng.choice(["<svg>", "<math>", "<table>", "<select>", "<frameset>", "<title>", "<script>", "<textarea>", "<pre>",
                             "<!DOCTYPE html>"])] + atoms
    text = "".join(atoms)
    if len(text) > 48:
        atoms = [text[:48]]
        text = atoms[0]
    surr = has_surrogate(text)
    mode, container = ("frag", rng.choice(gen.CONTAINERS)) if rng.random() < 0.2 else ("doc", None)
    base = {"prop": PROP, "atoms": atoms, "mode": mode, "container": container, "scripting": False, "encoding": None,
            "declare": None, "strategy": "sweep"}
    cases = []
    n = len(text)
    big = 1 << 30
    for k in range(1, n):
        cases.append(dict(base, kind="simtext", chunk=10240, src={"reads": [k], "rest": big}))
    for c in range(1, min(n, 12) + 1):
        cases.append(dict(base, kind="str", chunk=c, src={"reads": [], "rest": big}))
    if not surr:
        enc = rng.choice(["utf-8", "utf-16le", "utf-16be", "shift_jis", "windows-1252", "gb18030", "euc-kr"])
        declare = "bom" if enc in BOMS and rng.random() < 0.6 else rng.choice(["override", "transport"])
        payload, _chars = byte_payload(text, enc, declare)
        kind = rng.choice(["simbytes_noseek", "simbytes_noseek", "simbytes_seek", "http_plain"])
        for k in range(1, min(len(payload), 64)):
            cases.append(dict(base, kind=kind, encoding=enc, declare=declare, chunk=rng.choice([10240, 10240, 1, 2, 3]),
                              src={"reads": [k], "rest": rng.choice([big, big, 1])}))
    return cases


def gen_unit(rng, stream="main"):
    """-> list of cases sharing one document."""
    if stream == "sweep":
        return gen_sweep_unit(rng)
    surrogates_ok = rng.random() < 0.3
    atoms = gen.soup(rng, surrogates_ok=surrogates_ok)
    rh = rng.random()
    huge = rh < 0.006
    giant = rh < 0.0006
    if huge:
        atoms = gen.make_huge(rng, giant)
    r0 = rng.random() if not huge else 1.0
    if r0 < 0.02:
        atoms = [""]                       # the empty document (a BOM may still precede it)
    elif r0 < 0.06:
        atoms = atoms[:rng.randint(1, 2)]  # very short documents: EOF inside the sniffing reads
    # one document in 25 is damaged on its way (the same damage in every byte delivery of the unit); it ends in a
    # multi-byte character, so that a cut lands inside one
    damaged = rng.random() < 0.04
    damaged_at, damaged_byte = rng.random(), rng.choice([0xFF, 0xC3, 0xE3, 0x80, 0xF0, 0xC0])
    if damaged and not huge:
        atoms = list(atoms) + [rng.choice(["\xe9", "\u20ac", "\U0001f600", "\u4e2d", "x\u0416", "\uac00"])]
    text = "".join(atoms)
    surr = has_surrogate(text)
    if rng.random() < 0.25:
        mode, container = "frag", rng.choice(gen.CONTAINERS)
    else:
        mode, container = "doc", None
    scripting = rng.random() < 0.2
    cfg = None
    rc = rng.random()
    if rc < 0.25:
        cfg = {"tb": "dom" if rng.random() < 0.5 else "etree", "ns": rng.random() < 0.6, "strict": rng.random() < 0.25}
    encs = [rng.choice(_USABLE) for _ in range(2)]
    if rng.random() < 0.5:
        encs[0] = rng.choice(["utf-8", "utf-16le", "utf-16be", "shift_jis", "gb18030", "big5", "euc-jp", "euc-kr",
                              "iso-2022-jp", "gbk"])
    if damaged and rng.random() < 0.6:
        encs = ["utf-8", rng.choice(["utf-8", "utf-16le", "shift_jis", "gb18030", "euc-kr", "big5"])]
    cases = []
    n_deliv = rng.randint(6, 10) if not giant else 4
    for _ in range(n_deliv):
        if surr:
            kind = rng.choice(["str", "stringio", "simtext", "simtext"])
        elif giant:
            kind = rng.choice(["simbytes_noseek", "simbytes_noseek", "http_plain", "http_chunked", "simbytes_seekraises", "simtext", "bytesio",
                               "simbytes_seek"])
        else:
            kind = rng.choice(["str", "stringio", "textwrapper", "simtext", "simtext", "simtext",
                               "bytes", "bytesio", "simbytes_seek", "simbytes_seek", "simbytes_noseek",
                               "simbytes_noseek", "simbytes_seekraises", "http_plain", "http_chunked", "http_addinfourl"])
        case = {"prop": PROP, "atoms": atoms, "mode": mode, "container": container, "scripting": scripting,
                "kind": kind, "encoding": None, "declare": None}
        if cfg:
            case["cfg"] = cfg
        if kind in sources.BYTE_KINDS:
            enc = rng.choice(encs)
            declare = rng.choice(["override", "transport"])
            if enc in BOMS and rng.random() < 0.5:
                declare = "bom"
            case["encoding"] = enc
            case["declare"] = declare
            payload, chars = byte_payload(text, enc, declare)
            if damaged and not giant:
                # a transport cut the document inside a character, or a byte got into it that belongs to no character
                m = {}
                if rng.random() < 0.7:
                    m["torn"] = rng.randint(1, 3)
                if enc == "utf-8" and rng.random() < 0.5:
                    m["bad"] = [damaged_at, damaged_byte]
                if m:
                    case["mangle"] = m
                    payload = mangle(payload, m, len(BOMS[enc]) if declare == "bom" else 0)
        else:
            payload = text
            chars = text
        case["chunk"] = pick_chunk(rng, len(chars))
        if huge:
            # keep the cost of a 100 KB document bounded: no tiny chunks, no 1-item reads
            case["chunk"] = rng.choice([1000, 1024, 4096, 10240, 10240, 30000, max(1, len(chars) - 1), len(chars) // 2 + 1])
        if giant:
            case["chunk"] = rng.choice([4096, 10240, 10240, 30000, 65536])
        if kind in sources.SIM_KINDS and giant:
            # socket-like: hundreds of reads of varying size all the way through the document
            case["src"] = {"reads": [rng.choice([536, 1460, 2920, 4096, 8192, rng.randint(1, 70000)]) for _ in range(rng.randint(300, 700))],
                           "rest": rng.choice([1 << 30, 1460, 8192, 65536, 10240])}
            case["strategy"] = "giant"
        elif kind in sources.SIM_KINDS and huge:
            case["src"] = {"reads": [rng.randint(1, 20000) for _ in range(rng.randint(0, 6))], "rest": rng.choice([1 << 30, 1500, 8192, 65536])}
            case["strategy"] = "huge"
        elif kind in sources.SIM_KINDS:
            case["src"], case["strategy"] = make_schedule(rng, payload)
        else:
            case["src"], case["strategy"] = {"reads": [], "rest": 1 << 30}, "native"
        cases.append(case)
    return cases


# --------------------------------------------------------------------------
# execution

_ref_cache = {}


def block_start():
    """Defined process-wide state at the start of every block of units and of
    every replay (see sim/coldstate.py)."""
    from . import coldstate
    coldstate.restore()
    _ref_cache.clear()


def _parse_with(source, case, chunk, kwargs, log=None):
    """Run one real parse; returns (outcome, parser)."""
    # parser configuration is a dimension of the case (the same for the reference and the delivery): tree builder, namespaces,
    # strict mode - what the builder or strict mode does with a token must not depend on the delivery either
    cfg = case.get("cfg") or {}
    dom = cfg.get("tb") == "dom"
    parser = html5lib.HTMLParser(tree=treebuilders.getTreeBuilder("dom") if dom else _tb(),
                                 namespaceHTMLElements=cfg.get("ns", True), strict=bool(cfg.get("strict")))

    def state():
        tok = parser.__dict__.get("tokenizer")
        if tok is None:
            return "sniff"
        return tok.state.__name__
    probes.set_state_fn(state)
    if log is not None:
        log.state_fn = state
    U = _inputstream.HTMLUnicodeInputStream
    saved = U._defaultChunkSize
    U._defaultChunkSize = chunk
    try:
        try:
            if case["mode"] == "frag":
                tree = parser.parseFragment(source, container=case["container"], scripting=case["scripting"], **kwargs)
            else:
                tree = parser.parse(source, scripting=case["scripting"], **kwargs)
        except SimBudgetExceeded as e:
            return ("budget", str(e)), parser
        except RecursionError:
            return ("raise", "RecursionError", ""), parser
        except Exception as e:  # whatever the library raises is an outcome
            # (in strict mode the error that raised is the last entry of parser.errors: its position is part of the outcome)
            errs = list(getattr(parser, "errors", None) or [])
            return ("raise", type(e).__name__, str(e)[:200], errs), parser
        try:
            enc = parser.tokenizer.stream.charEncoding[0].name
        except Exception:
            enc = None
        return ("ok", canon_dom(tree) if dom else canon_etree(tree), parser.errors, enc), parser
    finally:
        U._defaultChunkSize = saved
        probes.set_state_fn(None)


def reference(chars, case, kwargs=None):
    """The contiguous parse.  For a str (the characters) it is the parse of that str; for a byte string that is NOT the
    encoding of any character string (`chars` is bytes: torn or damaged on purpose) it is the parse of the bytes object itself
    in one piece - the property then says that every other delivery of the same bytes gives the same result."""
    key = (chars, case["mode"], case["container"], case["scripting"], tuple(sorted((kwargs or {}).items())) if isinstance(chars, bytes) else None,
           tuple(sorted((case.get("cfg") or {}).items())))
    hit = _ref_cache.get("k")
    if hit is not None and hit[0] == key:
        return hit[1]
    out, _p = _parse_with(chars, case, max(10240, len(chars) + 1), (kwargs or {}) if isinstance(chars, bytes) else {})
    _ref_cache["k"] = (key, out)
    return out


def mangle(payload, m, bom_len=0):
    """Damage a byte payload the way transports do: cut it inside a character, or put a byte into it that is not part of
    any character."""
    if not m:
        return payload
    if m.get("torn"):
        payload = payload[:max(bom_len, len(payload) - m["torn"])]
    if m.get("bad") is not None and len(payload) > bom_len:
        frac, byte = m["bad"]
        pos = bom_len + int(frac * (len(payload) - bom_len))
        payload = payload[:pos] + bytes([byte]) + payload[pos:]
    return payload


def strip_stream_errors(errors):
    return [e for e in errors if not isinstance(e[1], probes.StreamErr)]


def n_stream_errors(errors):
    return sum(1 for e in errors if isinstance(e[1], probes.StreamErr))


def _char_starts_bytes(chars, enc, raw_len, bom_len):
    """Set of byte offsets at which a character starts (None if unknown)."""
    if enc == "iso-2022-jp":
        return None
    codec = webencodings.lookup(enc).codec_info
    starts = set()
    pos = bom_len
    try:
        for c in chars:
            starts.add(pos)
            pos += len(codec.encode(c, "strict")[0])
    except Exception:
        return None
    if pos != raw_len:
        return None
    starts.add(pos)
    return starts


def classify_faults(case, payload, chars, log, stats):
    """Which fault kinds actually *fired* in this run (derived from the real
    read boundaries recorded by the source + the chunk size)."""
    f = stats["faults"]
    kind = case["kind"]
    is_bytes = kind in sources.BYTE_KINDS
    bounds = list(log.boundaries)
    n = len(payload)
    chunk = case["chunk"]
    if kind in ("str", "stringio", "textwrapper"):
        bounds = list(range(chunk, n, chunk))[:5000]
    if log.short_reads:
        f["short_read"] = log.short_reads
    if log.one_item_reads:
        f["one_item_read"] = log.one_item_reads
    if kind in ("simbytes_noseek", "http_plain", "http_chunked", "http_addinfourl"):
        f["no_seek"] = 1
    if kind == "simbytes_seekraises":
        f["seek_raises"] = 1
    if not bounds:
        return bounds
    bset = set(bounds)
    if is_bytes:
        bom_len = 0
        if case["declare"] == "bom":
            bom_len = len(BOMS[case["encoding"]])
            if any(b < bom_len for b in bset):
                f["split_bom"] = 1
                probes.PROBES["bom_split_across_reads"] += 1
        starts = _char_starts_bytes(chars, case["encoding"], n, bom_len)
        if starts is not None:
            k = sum(1 for b in bset if b not in starts and b >= bom_len)
            if k:
                f["split_multibyte"] = k
                probes.PROBES["multibyte_split_at_read"] += k
        crlf = sum(1 for b in bset if payload[b - 1:b] == b"\r" and payload[b:b + 1] == b"\n")
        if crlf:
            f["split_crlf"] = crlf
        low = payload[:30000].lower().decode("latin-1")
    else:
        crlf = sum(1 for b in bset if payload[b - 1] == "\r" and payload[b] == "\n")
        if crlf:
            f["split_crlf"] = crlf
        sur = sum(1 for b in bset if 0xD800 <= ord(payload[b - 1]) <= 0xDBFF)
        if sur:
            f["split_surrogate"] = sur
        low = payload[:30000].lower()
    kw = 0
    for m in _KW_RE.finditer(low):
        for b in range(m.start() + 1, m.end()):
            if b in bset:
                kw += 1
                break
    if kw:
        f["split_keyword"] = kw
    return bounds


def execute(case):
    """Run one delivery against its contiguous reference.  Returns a result
    dict: ok, oracle, detail, known, stats, digest."""
    probes.install()
    probes.reset()
    text = text_of(case)
    kind = case["kind"]
    stats = {"faults": {}, "probes": {}, "steps": 0, "reach": [], "nontrivial": False, "fault_free": False}
    kwargs = {}
    if kind in sources.BYTE_KINDS:
        enc = case["encoding"]
        payload, chars = byte_payload(text, enc, case["declare"])
        if case["declare"] == "override":
            kwargs["override_encoding"] = enc
        elif case["declare"] == "transport":
            kwargs["transport_encoding"] = enc
        if case.get("mangle"):
            payload = mangle(payload, case["mangle"], len(BOMS[enc]) if case["declare"] == "bom" else 0)
            stats["faults"]["damaged_byte_payload"] = 1
    else:
        payload = chars = text
    ref = reference(payload, case, kwargs) if case.get("mangle") and kind in sources.BYTE_KINDS else reference(chars, case)
    probes.reset()
    probes.set_budget(len(payload))
    log = ReadLog(len(payload))
    src = make_source(kind, payload, case["src"], log)
    try:
        out, parser = _parse_with(src, case, case["chunk"], kwargs, log)
    finally:
        probes.set_budget(None)

    bounds = classify_faults(case, payload, chars, log, stats)
    if len(chars) > 10240 and case["chunk"] == 10240:
        probes.PROBES["doc_crosses_default_chunk"] += 1
    if kind == "simtext" and any(e[1] == "read" and e[3] == 1 for e in log.events):
        # a read that consisted of a single CR / lead surrogate
        pos = 0
        for e in log.events:
            if e[1] == "read" and e[3] == 1:
                c = payload[e[4] - 1]
                if c == "\r":
                    probes.PROBES["single_item_read_is_CR"] += 1
                elif 0xD800 <= ord(c) <= 0xDBFF:
                    probes.PROBES["single_item_read_is_lead_surrogate"] += 1
    elif case["chunk"] == 1 and "\r" in chars:
        probes.PROBES["single_item_read_is_CR"] += 1
    stats["probes"] = dict(probes.PROBES)
    stats["steps"] = len(log.events) + probes.PROBES.get("readChunk", 0)
    stats["reach"] = sorted("%s|%s|%s" % s for s in probes.CHUNK_SIGS)
    stats["nontrivial"] = bool(bounds) or probes.PROBES.get("readChunk", 0) > 2
    stats["fault_free"] = not stats["faults"]

    res = {"ok": True, "oracle": None, "detail": "", "known": None, "stats": stats}
    res["digest"] = env.digest((log.events, out[0], out[1:] if out[0] != "ok" else (out[1], canon_errors(out[2]), out[3])))

    if ref[0] == "budget":
        # cannot happen for a str reference (no SimSource); defensive
        res["detail"] = "reference exceeded budget"
        return res
    if out[0] == "budget":
        return _fail(res, "liveness", "read budget exceeded: %s" % out[1])
    if ref[0] == "raise" or out[0] == "raise":
        if ref[0] == out[0] and ref[1] == out[1]:
            if (case.get("cfg") or {}).get("strict") and ref[1] == "ParseError" and len(ref) > 3 and len(out) > 3 \
                    and not n_stream_errors(ref[3]) and not n_stream_errors(out[3]):
                # strict mode: the same first error, at the same place (stream-level errors set aside: F2)
                if ref[2] != out[2] or canon_errors(ref[3]) != canon_errors(out[3]):
                    return _fail(res, "errors", "strict mode stops at a different error: reference %s %s, delivery %s %s"
                                 % (brief(ref[2], 80), canon_errors(ref[3])[-1:], brief(out[2], 80), canon_errors(out[3])[-1:]))
            return res
        return _fail(res, "exception", "reference %s, delivery %s" % (brief(ref[:3]), brief(out[:3])))
    # both ok
    if out[1] != ref[1]:
        return _fail(res, "tree", "tree differs " + first_diff(ref[1], out[1]))
    if kind in sources.BYTE_KINDS and out[3] != case["encoding"]:
        return _fail(res, "encoding", "documentEncoding %r, declared certain %r" % (out[3], case["encoding"]))
    e_ref = canon_errors(ref[2])
    e_out = canon_errors(out[2])
    if e_ref != e_out:
        # F2 signature: identical once stream-originated invalid-codepoint
        # entries are set aside, and the same number of those
        if (canon_errors(strip_stream_errors(ref[2])) == canon_errors(strip_stream_errors(out[2])) and
                n_stream_errors(ref[2]) == n_stream_errors(out[2]) and n_stream_errors(ref[2]) > 0):
            res["ok"] = False
            res["oracle"] = "errors"
            res["known"] = "F2"
            res["detail"] = "stream-level invalid-codepoint positions differ: " + first_diff(e_ref, e_out)
            return res
        return _fail(res, "errors", "errors differ " + first_diff(e_ref, e_out))
    return res


def _fail(res, oracle, detail):
    res["ok"] = False
    res["oracle"] = oracle
    res["detail"] = detail
    return res


# --------------------------------------------------------------------------
# minimisation

def shrinks(case):
    """Candidate simpler cases, most aggressive first."""
    atoms = case["atoms"]
    n = len(atoms)
    # drop halves / quarters / single atoms
    size = n // 2
    while size >= 1:
        for i in range(0, n, size):
            cand = atoms[:i] + atoms[i + size:]
            if cand != atoms:
                yield dict(case, atoms=cand)
        size //= 2
    # split long atoms so that pieces can go
    if any(len(a) > 64 for a in atoms):
        yield dict(case, atoms=gen.split_long_atoms(atoms))
    # shorten atoms
    for i, a in enumerate(atoms):
        if len(a) > 1:
            yield dict(case, atoms=atoms[:i] + [a[:len(a) // 2]] + atoms[i + 1:])
            yield dict(case, atoms=atoms[:i] + [a[len(a) // 2:]] + atoms[i + 1:])
            yield dict(case, atoms=atoms[:i] + [a[:-1]] + atoms[i + 1:])
            yield dict(case, atoms=atoms[:i] + [a[1:]] + atoms[i + 1:])
    # simpler mode
    if case["mode"] == "frag":
        yield dict(case, mode="doc", container=None)
        if case["container"] != "div":
            yield dict(case, container="div")
    if case["scripting"]:
        yield dict(case, scripting=False)
    # simpler source: fewer boundaries
    src = case["src"]
    reads = src.get("reads") or []
    if reads:
        yield dict(case, src=dict(src, reads=[]))
        yield dict(case, src=dict(src, reads=reads[:len(reads) // 2]))
        for i in range(len(reads) - 1):
            yield dict(case, src=dict(src, reads=reads[:i] + [reads[i] + reads[i + 1]] + reads[i + 2:]))
    if src.get("rest", 1) < (1 << 30):
        yield dict(case, src=dict(src, rest=1 << 30))
    # towards contiguous chunk size
    if case["chunk"] != 10240:
        yield dict(case, chunk=10240)
        for c in (1024, 64, 16, 8, 4, 3, 2):
            if c > case["chunk"]:
                yield dict(case, chunk=c)
    # simpler kinds
    simpler = {"http_addinfourl": "http_plain", "http_chunked": "simbytes_noseek", "http_plain": "simbytes_noseek", "simbytes_seekraises": "simbytes_noseek",
               "simbytes_noseek": "simbytes_seek", "simbytes_seek": "bytesio", "bytesio": "bytes",
               "textwrapper": "stringio", "simtext": "stringio", "stringio": "str"}
    if case["kind"] in simpler:
        yield dict(case, kind=simpler[case["kind"]])
    if case["encoding"] not in (None, "utf-8"):
        yield dict(case, encoding="utf-8")
    if case["declare"] == "bom":
        yield dict(case, declare="override")
    if case["declare"] == "transport":
        yield dict(case, declare="override")
    if case.get("cfg"):
        yield dict(case, cfg=None)
        for k, v in (("tb", "etree"), ("ns", True), ("strict", False)):
            if case["cfg"].get(k) != v:
                yield dict(case, cfg=dict(case["cfg"], **{k: v}))
    if case.get("mangle"):
        yield dict(case, mangle=None)
        for k in list(case["mangle"]):
            if len(case["mangle"]) > 1:
                yield dict(case, mangle={kk: v for kk, v in case["mangle"].items() if kk != k})


def describe(case):
    text = text_of(case)
    return {"text": text if len(text) <= 200 else text[:200] + "...(%d chars)" % len(text),
            "mode": case["mode"], "container": case["container"], "kind": case["kind"], "encoding": case["encoding"],
            "declare": case["declare"], "chunk": case["chunk"], "src": _short_src(case["src"]),
            "strategy": case.get("strategy"), "damage_to_the_bytes": case.get("mangle"), "parser_configuration": case.get("cfg")}


def _short_src(src):
    reads = src.get("reads") or []
    return {"reads": reads if len(reads) <= 20 else reads[:20] + ["...%d more" % (len(reads) - 20)],
            "rest": src.get("rest"), "fail_at": src.get("fail_at")}


# --------------------------------------------------------------------------
# batch description

def plan(tier):
    """([(stream, units)], wall cap in seconds)."""
    if tier == "thorough":
        return [("main", 360000), ("sweep", 60000)], 1200
    return [("main", 21000), ("sweep", 2500)], 240


RULE = ("stream main: one run = one delivery of one generated document (atoms -> characters; source kind x read schedule x internal "
        "chunk size x encoding x document/fragment) compared with the contiguous str parse of the same characters; "
        "non-trivial = at least one read boundary or chunk refill fell strictly inside the payload; distinct = distinct "
        "SHA-1 of the explicit case (document, kind, encoding, declaration, chunk size, read schedule); stream sweep: for one short "
        "document every single cut position 1..n-1 (short-read text stream and non-seekable byte streams) and every chunk size "
        "1..min(n,12)")
EXPECTED_PROBES = ["cr_withheld", "lead_surrogate_withheld", "single_item_read_is_CR", "unget_at_chunk_start",
                   "charsUntil_spans_chunks", "bom_split_across_reads", "bufferedstream_replay", "bufferedstream_seek",
                   "multibyte_split_at_read", "doc_crosses_default_chunk", "stream_error"]
REACH_NOTE = ("distinct (tokenizer state at chunk refill, class of last character before the boundary, class of first "
              "character after it) triples")
REAL_VS_STUB = {
    "real": ["html5lib input stream, tokenizer, tree construction, etree builder (all from the repository working tree)",
             "CPython codecs.StreamReader and C multibyte stream readers, webencodings", "io.StringIO/BytesIO/TextIOWrapper",
             "http.client.HTTPResponse (plain and chunked decoding)"],
    "stub": ["SimText/SimBytes reader objects (short reads, no-seek, seek-raises)", "fake socket under HTTPResponse"],
}
ASSUMPTIONS = [
    "sampling, not proof: the schedules, chunk sizes, encodings and documents explored are those drawn from VERIF_SEED",
    "the contiguous str parse at a chunk size larger than the input is the reference ('as if contiguous')",
    "byte payloads are restricted to text that round-trips strictly in the chosen encoding",
    "harness wrappers around readChunk/unget/characterErrorsUCS4/BufferedStream only count and tag, then call the real code",
]
